//go:build verif

package gsfa

// C06.chain — the per-address chain of linked-log records (sequential, no flusher goroutine).
//
// A history of 1..L flush steps is applied with the real GsfaWriter.flushKVs (real LinkedLog.Put,
// its callbacks on the offsets map, real record codec); each step flushes a batch of 1..2
// symbolic entries for address A, for address B, or one batch for each of them in a single call
// (handed over in descending key order, so Put has to sort). Then the real Close writes the head
// pointers through the real PubkeyToOffsetAndSize_Writer.Put into the index table, and the real
// GsfaReader.Get (real PubkeyToOffsetAndSize_Reader.Get, LinkedLog.ReadWithSize) must return, for
// each address, all its entries, each once, newest first; a third address is not found; limit
// cuts the answer to its first `limit` entries.

import (
	"context"

	"github.com/gagliardetto/solana-go"
	"github.com/rpcpool/yellowstone-faithful/gsfa/linkedlog"
)

func VerifC06Chain() {
	maxSteps := verifParam("steps", 3)
	bits := uint(verifParam("bits", 7)) // 7: every field is one uvarint byte (widths are C06.codec/C06.record)
	dir := verifTempPath("gsfa-chain")
	w := c06NewWriter(dir, 2, true) // the flusher goroutine idles until Close
	keys := [3]solana.PublicKey{c06Key(0), c06Key(1), c06Key(2)}
	var pushed [2][]linkedlog.OffsetAndSizeAndSlot // per address, in indexing order

	if verifParam("big", 0) == 1 {
		// C06.chain-big: address A starts with a batch of 28 or 29 entries with one-byte fields
		// (4 bytes each, concrete) plus one entry with offset, slot < 2^14 (4..6 bytes): the first record of
		// the chain is 126..128 or 131..133 bytes long in total, i.e. on both sides of the
		// 1-byte/2-byte length prefix boundary, and its size is kept in the head/previous pointers.
		nb := 29 + verifChoice("bigbatch", 2)
		vals := make([]*linkedlog.OffsetAndSizeAndSlot, nb)
		for i := range vals {
			if i == nb-1 {
				vals[i] = c06SymEntry(14, true)
			} else { // concrete filler entries, pairwise distinct
				c06Serial++
				vals[i] = &linkedlog.OffsetAndSizeAndSlot{Offset: uint64(i % 100), Size: c06Serial, Slot: uint64(i%120 + 1), Flags: linkedlog.Bitmap(i % 8)}
			}
			pushed[0] = append(pushed[0], *vals[i])
		}
		verifAssert(w.flushKVs(linkedlog.KeyToOffsetAndSizeAndBlocktime{Key: keys[0], Values: vals}) == nil, "C06.chain: flushKVs (big batch) failed")
	}
	steps := 1 + verifChoice("steps", maxSteps)
	for st := 0; st < steps; st++ {
		which := verifChoice("address", 3) // 0: A, 1: B, 2: one batch for each in one call
		var kvs []linkedlog.KeyToOffsetAndSizeAndBlocktime
		for k := 0; k < 2; k++ { // keys[0] > keys[1] bytewise: descending key order, Put must sort
			if which != 2 && which != k {
				continue
			}
			n := 1 + verifChoice("batchlen", 2)
			vals := make([]*linkedlog.OffsetAndSizeAndSlot, n)
			for i := range vals {
				vals[i] = c06SymEntry(bits, verifParam("symslot", 0) == 1)
				pushed[k] = append(pushed[k], *vals[i])
			}
			kvs = append(kvs, linkedlog.KeyToOffsetAndSizeAndBlocktime{Key: keys[k], Values: vals})
		}
		verifAssert(w.flushKVs(kvs...) == nil, "C06.chain: flushKVs failed")
	}
	verifAssert(w.Close() == nil, "C06.chain: Close failed")

	r := c06NewReader(dir)
	for k := 0; k < 2; k++ {
		want := c06Reversed(pushed[k])
		c06CheckGet(r, keys[k], want, "C06.chain")
		// limit: for every limit 1..n+1 the answer is the newest min(limit, n) entries (the cut can
		// fall inside a record or exactly on a record boundary); limit <= 0 is an empty answer
		for lim := 1; len(want) > 0 && lim <= len(want)+1; lim++ {
			if len(want) > 8 && lim > 3 && lim < len(want)-2 {
				continue // long chains (C06.chain-big): the cuts near both ends only
			}
			got, err := r.Get(context.Background(), keys[k], lim)
			n := lim
			if n > len(want) {
				n = len(want)
			}
			verifAssert(err == nil && len(got) == n, "C06.chain: Get with limit L does not return min(L, n) entries")
			for i := range got {
				verifAssert(got[i] == want[i], "C06.chain: Get with a limit does not return the newest entries")
			}
		}
		for _, lim := range []int{0, -1} {
			if len(want) == 0 {
				break
			}
			got, err := r.Get(context.Background(), keys[k], lim)
			verifAssert(err == nil && len(got) == 0, "C06.chain: Get with a non-positive limit is not an empty answer")
		}
	}
	c06CheckGet(r, keys[2], nil, "C06.chain")
	verifReach("end")
}
