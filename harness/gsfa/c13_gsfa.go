//go:build verif

package gsfa

import (
	"bytes"
	"context"
	"errors"

	"github.com/gagliardetto/solana-go"
	"github.com/ipfs/go-cid"
	"github.com/rpcpool/yellowstone-faithful/compactindexsized"
	"github.com/rpcpool/yellowstone-faithful/gsfa/linkedlog"
	"github.com/rpcpool/yellowstone-faithful/gsfa/manifest"
	"github.com/rpcpool/yellowstone-faithful/indexes"
	"github.com/rpcpool/yellowstone-faithful/indexmeta"
)

// C13.gsfa — a gsfa index directory (pubkey-to-offset-and-size compact index, linked log,
// manifest) written with the real writers' formats, with ONE of the three files cut at EVERY byte
// offset: the real NewGsfaReader + GsfaReader.Get (address A: two linked records; address B: one)
// either fail, or return the transaction locations of the complete directory. Never 'not found',
// never fewer / other locations, never other metadata.
//
// Cuts: isDir = true (memfs has no directories); xxhash (compactindexsized.EntryHash64 /
// Header.BucketHash, through hook variables) = table indexed by the first key byte.

// model of isDir (the real one is renamed verifOrig_isDir)
func isDir(path string) (bool, error) { return true, nil }

var verifC13Hash [256]uint64

func verifC13Pk(i byte) solana.PublicKey {
	var pk solana.PublicKey
	pk[0] = i
	pk[31] = 0x55
	return pk
}

func verifC13RootCid() cid.Cid {
	b := []byte{0x01, 0x71, 0x12, 0x20}
	for j := 0; j < 32; j++ {
		b = append(b, byte(0x21+j))
	}
	c, err := cid.Cast(b)
	verifAssert(err == nil, "C13.gsfa: harness CID does not parse")
	return c
}

func verifC13Put3(dst []byte, x uint64) { dst[0], dst[1], dst[2] = byte(x), byte(x>>8), byte(x>>16) }

// verifC13IndexImage: compactindexsized image, one bucket, entries for A and B (hash(A) < hash(B),
// eytzinger order of two sorted entries = [larger, smaller]).
func verifC13IndexImage(headA, headB indexes.OffsetAndSize) []byte {
	meta := &indexmeta.Meta{}
	meta.Add(indexmeta.MetadataKey_Epoch, indexes.Uint64tob(7))
	meta.Add(indexmeta.MetadataKey_RootCid, verifC13RootCid().Bytes())
	meta.Add(indexmeta.MetadataKey_Network, []byte(indexes.NetworkMainnet))
	meta.Add(indexmeta.MetadataKey_Kind, indexes.Kind_PubkeyToOffsetAndSize)
	h := &compactindexsized.Header{ValueSize: indexes.IndexValueSize_PubkeyToOffsetAndSize, NumBuckets: 1, Metadata: meta}
	img := h.Bytes()
	const mask = uint64(1)<<24 - 1
	hA, hB := verifU64("hashA"), verifU64("hashB")
	verifAssume(hA&mask < hB&mask)
	verifC13Hash[1], verifC13Hash[2] = hA, hB
	var hb [16]byte
	bh := compactindexsized.BucketHeader{HashDomain: 3, NumEntries: 2, HashLen: 3, FileOffset: uint64(len(img) + 16)}
	bh.Store(&hb)
	img = append(img, hb[:]...)
	entry := func(hash uint64, v indexes.OffsetAndSize) {
		var e [3]byte
		verifC13Put3(e[:], hash&mask)
		img = append(img, e[:]...)
		img = append(img, v.Bytes()...)
	}
	entry(hB, headB)
	entry(hA, headA)
	return img
}

func verifC13Same(a, b []linkedlog.OffsetAndSizeAndSlot) bool {
	if len(a) != len(b) {
		return false
	}
	ok := true
	for i := range a {
		ok = ok && a[i] == b[i]
	}
	return ok
}

func VerifC13Gsfa() {
	compactindexsized.VerifEntryHash = func(prefix uint32, key []byte) uint64 { return verifC13Hash[key[0]] }
	compactindexsized.VerifBucketHash = func(key []byte) uint { return 0 }
	pkA, pkB := verifC13Pk(1), verifC13Pk(2)
	dir := "/memfs/c13-gsfa"
	idxName := "/" + string(indexes.Kind_PubkeyToOffsetAndSize) + ".index"

	// linked log: A(2 entries), B(1 entry), A(1 entry, points to the first A record)
	ll, err := linkedlog.NewLinkedLog(dir + "/linked-log")
	verifAssert(err == nil, "C13.gsfa: NewLinkedLog failed")
	heads := map[solana.PublicKey]indexes.OffsetAndSize{}
	id := uint64(0)
	put := func(pk solana.PublicKey, n int) {
		vals := make([]*linkedlog.OffsetAndSizeAndSlot, n)
		for i := range vals {
			id++
			vals[i] = &linkedlog.OffsetAndSizeAndSlot{Offset: 100 + id, Size: uint64(verifU8("txsize") & 0x7f), Slot: 7*432000 + id}
		}
		_, err := ll.Put(
			func(p solana.PublicKey) (indexes.OffsetAndSize, error) { return heads[p], nil },
			func(p solana.PublicKey, off uint64, ln uint32) error {
				heads[p] = indexes.OffsetAndSize{Offset: off, Size: uint64(ln)}
				return nil
			},
			linkedlog.KeyToOffsetAndSizeAndBlocktime{Key: pk, Values: vals},
		)
		verifAssert(err == nil, "C13.gsfa: LinkedLog.Put failed")
	}
	put(pkA, 2)
	put(pkB, 1)
	put(pkA, 1)
	verifAssert(ll.Close() == nil, "C13.gsfa: LinkedLog.Close failed")
	// manifest
	var meta indexmeta.Meta
	meta.AddUint64(indexmeta.MetadataKey_Epoch, 7)
	man, err := manifest.NewManifest(dir+"/manifest", meta)
	verifAssert(err == nil && man.Close() == nil, "C13.gsfa: NewManifest failed")
	// pubkey index
	verifMemFile(dir+idxName, verifC13IndexImage(heads[pkA], heads[pkB]))

	names := []string{idxName, "/linked-log", "/manifest"}
	raws := make([][]byte, 3)
	for i, n := range names {
		raws[i] = verifMemFileBytes(dir + n)
	}

	q := []solana.PublicKey{pkA, pkB}[verifChoice("address", 2)]
	limits := []int{10, 1, 2}
	limit := limits[verifChoice("limit", verifParam("limits", len(limits)))]
	ctx := context.Background()

	full, err := NewGsfaReader(dir)
	verifAssert(err == nil, "C13.gsfa: the complete index does not open")
	want, err := full.Get(ctx, q, limit)
	verifAssert(err == nil, "C13.gsfa: the complete index does not answer a stored address")
	n := 3
	if q == pkB {
		n = 1
	}
	if n > limit {
		n = limit
	}
	verifAssert(len(want) == n, "C13.gsfa: the complete index answers with an unexpected number of locations")
	fullMeta := full.Meta()

	sel := verifChoice("file", 3)
	T := verifChoice("T", len(raws[sel])) // the first T bytes of that file are present
	// known finding: an empty manifest is silently re-initialised (see C13.gsfa.manifest)
	verifKnownFinding("C13-manifest-empty-reinit", sel == 2 && T == 0)
	cutDir := "/memfs/c13-gsfa-cut"
	for i, nme := range names {
		if i == sel {
			verifMemFile(cutDir+nme, raws[i][:T])
		} else {
			verifMemFile(cutDir+nme, raws[i])
		}
	}
	cut, err := NewGsfaReader(cutDir)
	if err != nil {
		verifAssert(cut == nil, "C13.gsfa: NewGsfaReader returned both a reader and an error")
		verifReach("open-error")
		verifReach("end")
		return
	}
	cutMeta := cut.Meta()
	verifAssert(cut.Version() == full.Version() && bytes.Equal(cutMeta.Bytes(), fullMeta.Bytes()), "C13.gsfa: truncated index opens with different manifest metadata")
	got, err := cut.Get(ctx, q, limit)
	if err != nil {
		verifAssert(!errors.Is(err, compactindexsized.ErrNotFound), "C13.gsfa: truncated index answers a stored address with 'not found'")
		verifAssert(got == nil, "C13.gsfa: locations returned together with an error")
		verifReach("get-error")
	} else {
		verifAssert(verifC13Same(got, want), "C13.gsfa: truncated index answers a stored address with different locations")
		verifReach("get-same")
	}
	verifReach("end")
}
