//go:build verif

package gsfa

import (
	"bytes"
	"os"
	"sync"
	"sync/atomic"
	"time"

	"github.com/gagliardetto/solana-go"
	"github.com/ipfs/go-cid"
	"github.com/rpcpool/yellowstone-faithful/gsfa/linkedlog"
	"github.com/rpcpool/yellowstone-faithful/indexes"
	"github.com/rpcpool/yellowstone-faithful/indexmeta"
)

// ---------------------------------------------------------------------------------------------
// C10.meta.gsfa — build-time identity of a gsfa index directory, end to end through the public
// API: the real NewGsfaWriter (as cmd-x-index-gsfa.go calls it: metadata with epoch / root CID /
// network for the manifest, the same epoch / root CID / network for the pubkey index) and the
// real Close (seals <dir>/pubkey-to-offset-and-size.index) with the real manifest, index writer
// and hash-index container (nothing pushed); then the real NewGsfaReader on the directory.
// What the loader compares (NewEpochFromConfig: Version, Meta().GetUint64/GetCid, OffsetsMeta())
// are the values given at build time, for both files of the directory.

// engine intrinsics of ext_C06.go (scheduler/timer/directory helpers of the gsfa writer harnesses);
// the bodies are the native fall-backs.
func verifC06Timer(exiting *atomic.Bool, ch chan linkedlog.KeyToOffsetAndSizeAndBlocktime) <-chan time.Time {
	return time.After(5 * time.Millisecond)
}
func verifC06QuietMutex(mu *sync.Mutex) {}
func verifC06RunOthers()                { time.Sleep(2 * time.Millisecond) }
func verifC06MkDir(path string)         { os.MkdirAll(path, 0o755) }

// model (engine redirect, ext_C10.go) of solana.PublicKeySlice.Sort: nothing is pushed in this
// obligation, the key sets Close sorts are empty.
func c10Model_PKSort(keys solana.PublicKeySlice) {
	verifAssert(len(keys) <= 1, "C10.gsfa: harness model of Sort used on more than one key")
}

func c10RootBytes(i int) []byte {
	b := []byte{0x01, 0x71, 0x12, 0x20}
	for j := 0; j < 32; j++ {
		b = append(b, byte(0xA0+0x10*i+j%7))
	}
	return b
}

var c10Networks = []indexes.Network{indexes.NetworkMainnet, indexes.NetworkTestnet, indexes.NetworkDevnet}

func VerifC10Gsfa() {
	verifC06MkDir("/memfs")
	if os.ErrNotExist == nil { // package os is not a source root: give its sentinel the file model's error
		_, err := os.Stat("/memfs/c10-no-such-file")
		os.ErrNotExist = err
	}
	epoch := verifU64("epoch")
	ri := verifChoice("root", verifParam("roots", 2))
	network := c10Networks[verifChoice("network", verifParam("networks", 3))]
	root, err := cid.Cast(c10RootBytes(ri))
	verifAssert(err == nil, "C10.gsfa: harness CID")

	// as cmd-x-index-gsfa.go does
	meta := indexmeta.Meta{}
	verifAssert(meta.AddUint64(indexmeta.MetadataKey_Epoch, epoch) == nil, "C10.gsfa: AddUint64")
	verifAssert(meta.AddCid(indexmeta.MetadataKey_RootCid, root) == nil, "C10.gsfa: AddCid")
	verifAssert(meta.AddString(indexmeta.MetadataKey_Network, string(network)) == nil, "C10.gsfa: AddString")
	dir := verifTempPath("gsfa-c10")
	if verifChoice("dirExists", 2) == 1 {
		verifC06MkDir(dir)
	}
	w, err := NewGsfaWriter(dir, meta, epoch, root, network, verifTempPath("gsfa-c10-tmp"))
	verifAssert(err == nil && w != nil, "C10.gsfa: NewGsfaWriter failed")
	verifC06QuietMutex(&w.mu)
	verifC06RunOthers()
	verifAssert(w.Close() == nil, "C10.gsfa: Close failed")

	r, err := NewGsfaReader(dir)
	if err != nil {
		verifTrace("NewGsfaReader", err.Error())
	}
	verifAssert(err == nil && r != nil, "C10.gsfa: NewGsfaReader refuses the directory NewGsfaWriter/Close produced")
	verifAssert(r.Version() >= 2, "C10.gsfa: manifest version below the one that carries metadata")
	m := r.Meta()
	e, ok := m.GetUint64(indexmeta.MetadataKey_Epoch)
	verifAssert(ok, "C10.gsfa: manifest epoch lost")
	verifAssert(e == epoch, "C10.gsfa: manifest epoch is not the build-time epoch")
	c, ok := m.GetCid(indexmeta.MetadataKey_RootCid)
	verifAssert(ok && c.Equals(root), "C10.gsfa: manifest root CID is not the build-time root CID")
	s, ok := m.GetString(indexmeta.MetadataKey_Network)
	verifAssert(ok && s == string(network), "C10.gsfa: manifest network is not the build-time network")
	om := r.OffsetsMeta()
	verifAssert(om != nil, "C10.gsfa: no metadata in the pubkey index")
	verifAssert(om.Epoch == epoch, "C10.gsfa: pubkey index epoch is not the build-time epoch")
	verifAssert(om.RootCid.Equals(root), "C10.gsfa: pubkey index root CID is not the build-time root CID")
	verifAssert(om.Network == network, "C10.gsfa: pubkey index network is not the build-time network")
	verifAssert(bytes.Equal(om.IndexKind, indexes.Kind_PubkeyToOffsetAndSize), "C10.gsfa: pubkey index kind")
	verifAssert(r.Close() == nil, "C10.gsfa: closing the reader failed")
	verifReach("end")
}
