//go:build verif

package gsfa

import (
	"context"
)

const verifC07EpochLen = 432000

// C07.slot — GetBeforeUntilSlot/iterBeforeUntilSlot (the slot-bounded variant used by the
// streaming API): the result is exactly the newest-first run of the history entries whose slot
// lies in [until, before), cut to `limit`; epochs without the address are skipped without error.
//
// World: as in C07.iter (real linked logs), every transaction has a symbolic slot that lies in
// its epoch (epoch*432000 <= slot < (epoch+1)*432000) and the slots of one epoch are
// non-increasing newest-first (the order in which the indexer appends them).
func VerifC07Slot() {
	w := verifC07Build(1, verifParam("max_epochs", 2), verifParam("max_entries", 2), verifParam("all_splits", 0))
	N := len(w.hist)

	before := verifU64("before")
	until := verifU64("until")
	if bits := uint(verifParam("slot_bits", 24)); bits < 64 {
		verifAssume(before <= 1<<bits && until <= 1<<bits)
	}
	limit := verifInt("limit")
	verifAssume(limit >= -1 && limit <= 1<<31)

	slots := make([]uint64, N)
	for i, e := range w.hist {
		s := verifU64("slot")
		verifAssume(s >= e.epoch*verifC07EpochLen && s < (e.epoch+1)*verifC07EpochLen)
		if i > 0 && w.hist[i-1].epoch == e.epoch {
			verifAssume(s <= slots[i-1])
		}
		slots[i] = s
		e.tx.Slot = int(s)
	}

	m, err := verifC07Multi(w.readers).GetBeforeUntilSlot(context.Background(), verifC07Pk, limit, before, until, w.fetcher("C07.slot"))
	verifAssert(err == nil, "C07.slot: GetBeforeUntilSlot failed (an epoch without the address must be skipped)")
	got := w.flatten(m, "C07.slot")

	// (b) a contiguous newest-first run of the history
	for j, e := range got {
		verifAssert(e.id == got[0].id+j, "C07.slot: result is not a contiguous newest-first run of the history")
	}
	// known finding: `tx.Slot < int(until)` - for until >= 2^63 the conversion turns negative and the
	// lower bound is never applied
	verifKnownFinding("C07-slot-until-int-overflow", until >= 1<<63)
	// (a1) lower bound
	for _, e := range got {
		verifAssert(slots[e.id-1] >= until, "C07.slot: returned a transaction with slot < until")
	}
	// known finding S8: the upper bound `before` is only applied per epoch, never per transaction:
	// entries of the epoch that contains `before` with slot >= before are returned.
	var inS8 uint64
	for i, e := range w.hist {
		// epoch not skipped by the epoch filter (epoch <= before/432000) and slot >= before
		c := e.epoch*verifC07EpochLen <= before
		d := slots[i] >= before
		inS8 += verifIteU64(c, verifIteU64(d, 1, 0), 0)
	}
	gate := verifIteU64(limit > 0, verifIteU64(before >= until, 1, 0), 0)
	verifKnownFinding("C07-S8-slot-upper-bound", verifIteU64(gate != 0, inS8, 0) != 0)
	// (a2) upper bound
	for _, e := range got {
		verifAssert(slots[e.id-1] < before, "C07.slot: returned a transaction with slot >= before (upper bound is exclusive)")
	}
	// (c) complete up to the limit
	var inRange uint64
	for i := range w.hist {
		inRange += verifIteU64(slots[i] < before, verifIteU64(slots[i] >= until, 1, 0), 0)
	}
	lim := verifIteU64(limit > 0, uint64(limit), 0)
	want := verifIteU64(inRange < lim, inRange, lim)
	verifAssert(uint64(len(got)) == want, "C07.slot: wrong number of transactions (in-range entries cut to limit)")
	// (d) the run starts at the newest in-range entry
	if len(got) > 0 && got[0].id > 1 {
		verifAssert(slots[got[0].id-2] >= before, "C07.slot: a newer in-range transaction was left out")
	}
	verifReach("end")
}
