//go:build verif

package gsfa

import (
	"github.com/gagliardetto/solana-go"
	"github.com/rpcpool/yellowstone-faithful/compactindexsized"
	"github.com/rpcpool/yellowstone-faithful/gsfa/linkedlog"
	"github.com/rpcpool/yellowstone-faithful/indexes"
	"github.com/rpcpool/yellowstone-faithful/ipld/ipldbindcode"
)

// ---------------------------------------------------------------------------
// shared world builder for the C07 obligations of package gsfa
//
// A "world" is 1..K loaded epochs (readers handed over newest epoch first, as
// getGsfaReadersInEpochDescendingOrder does). Every epoch owns a REAL linked log (written with
// the real LinkedLog.Put into an in-memory file, read back by the real ReadWithSize). The only
// cut is the per-epoch head lookup `index.offsets.Get(pk)` (compactindexsized file), replaced
// at its two call sites by verifC07Head, which answers from the table below.

type verifC07Tx struct {
	id    int    // 1-based position in the complete newest-first history
	epoch uint64 // epoch the entry was indexed in
	tx    *ipldbindcode.Transaction
}

type verifC07World struct {
	readers []*GsfaReader
	epochs  []uint64
	hist    []*verifC07Tx // complete history, newest epoch first, newest entry first inside an epoch
	byOff   map[uint64]*verifC07Tx
	byTx    map[*ipldbindcode.Transaction]*verifC07Tx
	perEp   []int // entries per epoch (reader order)
}

// head table of the cut index lookup: nil = address not in this epoch's index
var verifC07Heads = map[*GsfaReader]*indexes.OffsetAndSize{}

// verifC07Head is the model of (*indexes.PubkeyToOffsetAndSize_Reader).Get at the two call
// sites of gsfa-read-multiepoch.go: pointer to the newest record of the address or ErrNotFound.
func verifC07Head(index *GsfaReader, pk solana.PublicKey) (*indexes.OffsetAndSize, error) {
	h := verifC07Heads[index]
	if h == nil {
		return nil, compactindexsized.ErrNotFound
	}
	cp := *h
	return &cp, nil
}

var verifC07Pk = solana.PublicKey{7, 7, 7}

var verifC07EpochNums = []uint64{9, 7, 4, 2}

var verifC07LogNames = []string{"ll-a", "ll-b", "ll-c", "ll-d"}

// verifC07Sig is the signature token of history entry id (pairwise distinct).
func verifC07Sig(id int) (s solana.Signature) {
	s[0] = byte(id)
	s[1] = 0xA5
	s[63] = byte(id) ^ 0x5A
	return
}

// verifC07TxData is a minimal serialized transaction: compact-u16 signature count 1 + signature.
func verifC07TxData(sig solana.Signature) []byte {
	return append([]byte{1}, sig[:]...)
}

// verifC07Build builds the world. maxEp/maxN bound the shape; every epoch has 0..maxN entries
// (0 = address absent from that epoch), stored in one record or split into two linked records.
// splitMode: 0 = one record or split in half, 1 = every split point, 2 = always one record,
// 3 = fixed mix (first and third epoch split in half, second epoch one record).
func verifC07Build(minEp, maxEp, maxN int, splitMode int) *verifC07World {
	w := &verifC07World{byOff: map[uint64]*verifC07Tx{}, byTx: map[*ipldbindcode.Transaction]*verifC07Tx{}}
	verifC07Heads = map[*GsfaReader]*indexes.OffsetAndSize{}
	K := minEp + verifChoice("epochs", maxEp-minEp+1)
	id := 0
	for k := 0; k < K; k++ {
		n := verifChoice("entries", maxN+1)
		epochNum := verifC07EpochNums[k]
		ll, err := linkedlog.NewLinkedLog(verifTempPath(verifC07LogNames[k]))
		verifAssert(err == nil, "C07: NewLinkedLog failed")
		en := epochNum
		rd := &GsfaReader{epoch: &en, ll: ll}
		w.readers = append(w.readers, rd)
		w.epochs = append(w.epochs, epochNum)
		w.perEp = append(w.perEp, n)
		if n == 0 {
			verifC07Heads[rd] = nil
			continue
		}
		// entries of this epoch, newest first: ids id+1 .. id+n
		ents := make([]*verifC07Tx, n)
		for i := 0; i < n; i++ {
			id++
			sig := verifC07Sig(id)
			e := &verifC07Tx{id: id, epoch: epochNum, tx: &ipldbindcode.Transaction{Kind: 0, Data: ipldbindcode.DataFrame{Data: verifC07TxData(sig)}}}
			ents[i] = e
			w.hist = append(w.hist, e)
			w.byOff[uint64(100+id)] = e
			w.byTx[e.tx] = e
		}
		// split: the s oldest entries go into a first record, the rest into a second one
		s := 0
		if n >= 2 && splitMode != 2 {
			if splitMode == 1 {
				s = verifChoice("split", n)
			} else if splitMode == 3 {
				if k != 1 { // fixed mix: first and third epoch split in half, second in one record
					s = n / 2
				}
			} else {
				s = verifChoice("split", 2) * (n / 2)
			}
		}
		var prev indexes.OffsetAndSize
		put := func(part []*verifC07Tx) { // part is newest first
			vals := make([]*linkedlog.OffsetAndSizeAndSlot, len(part))
			for i := range part { // Put wants oldest first
				e := part[len(part)-1-i]
				vals[i] = &linkedlog.OffsetAndSizeAndSlot{Offset: uint64(100 + e.id), Size: 1, Slot: uint64(e.id)}
			}
			_, err := ll.Put(
				func(solana.PublicKey) (indexes.OffsetAndSize, error) { return prev, nil },
				func(_ solana.PublicKey, off uint64, ln uint32) error {
					prev = indexes.OffsetAndSize{Offset: off, Size: uint64(ln)}
					return nil
				},
				linkedlog.KeyToOffsetAndSizeAndBlocktime{Key: verifC07Pk, Values: vals},
			)
			verifAssert(err == nil, "C07: LinkedLog.Put failed")
		}
		// another address's record may be stored first, so that this address's chain does not start at
		// file offset 0 (param foreign: 0 = only in the second epoch, 1 = every combination)
		if (verifParam("foreign", 0) == 1 && verifChoice("foreign_first", 2) == 1) || (verifParam("foreign", 0) == 0 && k == 1) {
			_, err := ll.Put(
				func(solana.PublicKey) (indexes.OffsetAndSize, error) { return indexes.OffsetAndSize{}, nil },
				func(solana.PublicKey, uint64, uint32) error { return nil },
				linkedlog.KeyToOffsetAndSizeAndBlocktime{Key: solana.PublicKey{1, 2, 3}, Values: []*linkedlog.OffsetAndSizeAndSlot{{Offset: 5000, Size: 9, Slot: 77}}},
			)
			verifAssert(err == nil, "C07: LinkedLog.Put failed")
		}
		if s > 0 {
			put(ents[n-s:])
		}
		put(ents[:n-s])
		verifAssert(ll.Flush() == nil, "C07: Flush failed")
		head := prev
		verifC07Heads[rd] = &head
	}
	return w
}

func (w *verifC07World) fetcher(label string) func(uint64, linkedlog.OffsetAndSizeAndSlot) (*ipldbindcode.Transaction, error) {
	return func(epochNum uint64, loc linkedlog.OffsetAndSizeAndSlot) (*ipldbindcode.Transaction, error) {
		e := w.byOff[loc.Offset]
		verifAssert(e != nil, label+": fetcher called with a location that was never indexed")
		verifAssert(e.epoch == epochNum, label+": fetcher called with the wrong epoch for a location")
		return e.tx, nil
	}
}

// flatten lists the result newest epoch first and checks the epoch keys.
func (w *verifC07World) flatten(m EpochToTransactionObjects, label string) []*verifC07Tx {
	var got []*verifC07Tx
	seen := 0
	for _, ep := range w.epochs {
		l, ok := m[ep]
		if ok {
			seen++
		}
		for _, tx := range l {
			e := w.byTx[tx]
			verifAssert(e != nil, label+": result holds a transaction the fetcher never returned")
			verifAssert(e.epoch == ep, label+": transaction filed under the wrong epoch")
			got = append(got, e)
		}
	}
	verifAssert(seen == len(m), label+": result has a key that is not a loaded epoch")
	return got
}

func verifC07Multi(rs []*GsfaReader) *GsfaReaderMultiepoch {
	m, err := NewGsfaReaderMultiepoch(rs)
	verifAssert(err == nil, "C07: NewGsfaReaderMultiepoch failed")
	return m
}
