//go:build verif

package gsfa

// C06.flusher — Push / background flusher / Close end to end, under every interleaving.
//
// The real GsfaWriter.Push, fullBufferWriter (goroutine), Close, flushAccum, flushKVs,
// LinkedLog.Put run with the thresholds shrunk (overlay rewrites of gsfa-write.go turn the
// literals into variables: itemsPerBatch 1000 -> 2, parked buffers 256 -> 2, partial-flush
// limit 100 000 -> 1 key, channel capacity 50 -> 2). A history of 1..P pushes, each for a
// non-empty subset of the addresses, is followed by Close; then the real GsfaReader.Get must
// return for every address exactly the pushed entries, each once, newest first.
// One push of the history (or none) carries a slot that is a multiple of 500, which arms the
// periodic partial flush of Push.

import (
	"github.com/gagliardetto/solana-go"
	"github.com/rpcpool/yellowstone-faithful/gsfa/linkedlog"
)

func VerifC06Flusher() { verifC06PushClose("C06.flusher") }

// C06.accum — the same harness with a batch size of 3 and three addresses: the histories in
// which no address fills a batch (accumulate, periodic partial flush of Push, Close/flushAccum,
// idle flusher and its shutdown handshake) lie outside the known-finding region.
func VerifC06Accum() { verifC06PushClose("C06.accum") }

// C06.partial — the same harness with all three thresholds of Push shrunk consistently, so that
// the three regimes of an address at the moment of a periodic partial flush exist in the scope:
// "cold" (fewer pending entries than the cold limit: written and removed from the accumulator),
// "warm" (cold limit <= pending < itemsPerBatch: must stay in the accumulator untouched and be
// written later by a full batch or by Close) and "full" (handed to the flusher). With the real
// constants these are < 100, 100..999 and 1000 pending entries.
func VerifC06Partial() { verifC06PushClose("C06.partial") }

// C06.parked — the same harness with three addresses and batch size 2: three full batches of
// different addresses can be in flight, so the flusher's parked-buffer limit is reached without
// a repeated address.
func VerifC06Parked() { verifC06PushClose("C06.parked") }

func verifC06PushClose(tag string) {
	verifC06ColdLimit = verifParam("cold", 100)
	itemsPerBatch = verifParam("batch", 2)
	verifC06Parked = verifParam("parked", 2)
	verifC06AccumLimit = verifParam("accumlimit", 1)
	nAddr := verifParam("addrs", 2)
	minPush := verifParam("minpushes", 1)
	maxPush := verifParam("pushes", 4)

	n := minPush + verifChoice("pushes", maxPush-minPush+1)
	flushAt := n // index of the push whose slot is a multiple of 500; n = none
	if verifParam("slot500", 1) == 1 {
		flushAt = verifChoice("slot500", n+1)
	}
	subsets := 1<<uint(nAddr) - 1
	sets := make([]int, n)
	cnt := make([]int, nAddr)
	anyFull := false
	for i := range sets {
		sets[i] = 1 + verifChoice("addresses", subsets) // bit k: address k takes part
		for k := 0; k < nAddr; k++ {
			if sets[i]&(1<<uint(k)) != 0 {
				cnt[k]++
				if cnt[k] >= itemsPerBatch {
					anyFull = true
				}
			}
		}
	}
	// Known finding C06-S6 (see /verif/proposed-fixes): a full batch handed to fullBufferWriter is
	// parked in tmpBuf and never written unless a later full batch of the same address arrives;
	// Close additionally writes the remainder before the flusher has drained. Every history in
	// which some address reaches itemsPerBatch entries is affected.
	verifKnownFinding("C06-S6-flusher-parked-batch-lost", anyFull)

	dir := verifTempPath("gsfa-flusher")
	w := c06NewWriter(dir, verifParam("chancap", 2), verifParam("eager", 0) == 1)
	keys := make([]solana.PublicKey, nAddr)
	for k := range keys {
		keys[k] = c06Key(k)
	}
	pushed := make([][]linkedlog.OffsetAndSizeAndSlot, nAddr)
	for i := 0; i < n; i++ {
		off := verifU64("offset")
		verifAssume(off < 1<<7)
		size := uint64(i + 1)
		slot := uint64(1000 + i)
		if i == flushAt {
			slot = uint64(500 * (i + 2))
		}
		// one flag per push in turn, then all three: every flag is both set and clear within two
		// pushes and no two flags are correlated
		hasMeta, isSuccess, isVote := i%4 == 0 || i%4 == 3, i%4 == 1 || i%4 == 3, i%4 == 2 || i%4 == 3
		var pks solana.PublicKeySlice
		for k := 0; k < nAddr; k++ { // keys[0] > keys[1] > ...: handed over in descending order
			if sets[i]&(1<<uint(k)) != 0 {
				pks = append(pks, keys[k])
			}
		}
		if len(pks) > 1 {
			pks = append(pks, pks[0]) // a repeated address in one transaction: Push must dedupe
		}
		err := w.Push(off, size, slot, pks, hasMeta, isSuccess, isVote)
		verifAssert(err == nil, tag+": Push failed")
		e := linkedlog.OffsetAndSizeAndSlot{Offset: off, Size: size, Slot: slot}
		e.Flags = linkedlog.NewBitmapFromValues(hasMeta, isSuccess, isVote)
		for k := 0; k < nAddr; k++ {
			if sets[i]&(1<<uint(k)) != 0 {
				pushed[k] = append(pushed[k], e)
			}
		}
	}
	verifAssert(w.Close() == nil, tag+": Close failed")

	r := c06NewReader(dir)
	for k := 0; k < nAddr; k++ {
		c06CheckGet(r, keys[k], c06Reversed(pushed[k]), tag)
	}
	c06CheckGet(r, c06Key(7), nil, tag)
	verifReach("end")
}
