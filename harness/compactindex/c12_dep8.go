//go:build verif

package compactindex

import (
	"bytes"
	"encoding/binary"
)

// C12.cidx8 — the deprecated 8-byte-value index format (value width derived from the header FileSize): Open, Header.Load, GetBucket,
// LookupBucket, Bucket.Lookup (with and without prefetch) on a file whose 32-byte header is
// arbitrary and which is followed by one bucket header and E arbitrary entry bytes.
// Cuts: EntryHash64 (renamed) and xxhash.Sum64 are arbitrary 64-bit values.

var verifC12Hash uint64

func EntryHash64(prefix uint32, key []byte) uint64 { return verifC12Hash }
func c12Model_xxhashSum64(b []byte) uint64         { return verifU64("xxhash") }

func VerifC12Dep() {
	verifAllocLimit(int64(verifParam("alloc", 1<<20)))
	// the header's FileSize field selects the value width: structure-aware candidates
	fsCands := []uint64{1 << 20, 0, 255, 1<<64 - 1}
	fileSize := fsCands[verifChoice("fileSize", verifParam("fsizes", len(fsCands)))]
	stride := 3 + int(intWidth(fileSize))
	E := verifParam("entries", 2) * stride
	lens := []int{headerSize + bucketHdrLen + E, 0, 31, 32, 40}
	n := lens[verifChoice("len", verifParam("lens", len(lens)))]
	data := verifBytes("file", n)
	if n >= 16 {
		binary.LittleEndian.PutUint64(data[8:16], fileSize)
	}
	total := headerSize + bucketHdrLen + E
	if n == total {
		// structure-aware candidates for the bucket's file offset (it positions every read)
		offCands := []uint64{headerSize + bucketHdrLen, uint64(total + 1), 0, 1<<48 - 1}
		var fo [8]byte
		binary.LittleEndian.PutUint64(fo[:], offCands[verifChoice("fileOffset", verifParam("offsets", len(offCands)))])
		copy(data[headerSize+10:headerSize+16], fo[:6])
	}
	db, err := Open(bytes.NewReader(data))
	if err != nil {
		verifAssert(db == nil, "C12.cidx8: Open returned both a handle and an error")
		verifReach("open-error")
		verifReach("end")
		return
	}
	verifAssert(db != nil && n >= headerSize, "C12.cidx8: Open accepted a file shorter than the header")
	nb := db.Header.NumBuckets
	prefetch := verifChoice("prefetch", 2) == 1
	db.Prefetch(prefetch)
	key := []byte("k")
	// known defect: Header.Load accepts NumBuckets == 0 and BucketHash divides by it
	verifKnownFinding("C12-cidxdep-zero-buckets", nb == 0)
	if nb == 0 {
		_, err := db.LookupBucket(key)
		verifAssert(err != nil, "C12.cidx8: a bucket was found in an index without buckets")
		verifReach("end")
		return
	}
	if n < total {
		i := verifU64("bucket")
		b, err := db.GetBucket(uint(i))
		verifAssert(err != nil && b == nil, "C12.cidx8: GetBucket succeeded on a file without a complete bucket header")
		verifReach("end")
		return
	}
	if prefetch {
		ne := binary.LittleEndian.Uint32(data[headerSize+4:])
		verifAssume(ne <= 2 || ne >= 8000) // the prefetch buffer length (and its clipping to the section) is concretised
	}
	i := verifU64("bucket")
	verifAssume(i == 0 || i > uint64(E/bucketHdrLen) || i >= uint64(nb))
	b, err := db.GetBucket(uint(i))
	if err != nil {
		verifAssert(b == nil, "C12.cidx8: GetBucket returned both a bucket and an error")
		verifReach("bucket-error")
		verifReach("end")
		return
	}
	verifAssert(b != nil && i == 0 && i < uint64(nb), "C12.cidx8: GetBucket accepted a bucket number that is out of range")
	// known defect: the bucket header's hash length is never checked against the stride
	verifKnownFinding("C12-cidxdep-hashlen", uint16(b.HashLen)+uint16(b.OffsetWidth) > uint16(b.Stride))
	verifC12Hash = verifU64("keyhash")
	_, err = b.Lookup(key)
	if err == nil {
		verifReach("lookup-hit")
	} else {
		verifReach("lookup-error")
	}
	verifReach("end")
}
