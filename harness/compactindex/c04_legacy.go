//go:build verif

package compactindex

import (
	"bytes"
	"context"
	"errors"
	"io"
	"os"
)

// ---- models (see harness/compactindexsized/c04_models.go for the rationale) ----

func verifC04KeyID(key []byte) uint64 {
	id := uint64(len(key)) << 32
	for i := 0; i < 4 && i < len(key); i++ {
		id |= uint64(key[i]) << (8 * i)
	}
	return id
}

var verifC04HashRange uint64

// EntryHash64 (model; real one renamed verifOrig_EntryHash64): arbitrary function of (prefix, key),
// low 24 bits restricted to [0, verifC04HashRange) when that is non-zero.
func EntryHash64(prefix uint32, key []byte) uint64 {
	v := verifUF64("entryhash", uint64(prefix)<<48^verifC04KeyID(key))
	if verifC04HashRange != 0 {
		verifAssume(v&0xffffff < verifC04HashRange)
	}
	return v
}

// verifC04Sum64 replaces xxhash.Sum64 in Header.BucketHash (rewrite).
func verifC04Sum64(key []byte) uint64 { return verifUF64("sum64", verifC04KeyID(key)) }

// fallocate (model; linux syscall renamed away): the portable implementation of the repo.
func fallocate(f *os.File, offset int64, size int64) error { return fake_fallocate(f, offset, size) }

func verifC04Perm(n, which int) []int {
	p := make([]int, n)
	for i := range p {
		p[i] = i
	}
	if n <= 3 {
		all := [][]int{{0, 1, 2}, {0, 2, 1}, {1, 0, 2}, {1, 2, 0}, {2, 0, 1}, {2, 1, 0}}
		if n == 3 {
			return all[which%6]
		}
		if n == 2 && which%2 == 1 {
			return []int{1, 0}
		}
		return p
	}
	switch which {
	case 1:
		for i := range p {
			p[i] = n - 1 - i
		}
	case 2:
		for i := range p {
			p[i] = (i + n/2) % n
		}
	}
	return p
}

func verifC04NumPerms(n, want int) int {
	switch {
	case n <= 1:
		return 1
	case n == 2:
		return 2
	case n == 3:
		return 6
	}
	return want
}

func verifC04Key(i int) []byte {
	k := make([]byte, i+1)
	k[0] = byte(i + 1)
	return k
}

// values of the 8-byte format: arbitrary offsets <= the declared target file size (documented
// precondition of Builder.Insert), for target file sizes of every offset width 1..8.
func verifC04FileSize() uint64 {
	sizes := []uint64{1, 255, 256, 65535, 1 << 24, 1<<32 - 1, 1 << 40, 1<<56 - 1, 1<<64 - 1}
	if verifParam("allwidths", 1) == 0 {
		sizes = []uint64{255, 1 << 40, 1<<64 - 1}
	}
	return sizes[verifChoice("fileSize", len(sizes))]
}

func verifC04Width(fileSize uint64) uint8 { return intWidth(fileSize) }

func verifC04Val(fileSize uint64) uint64 {
	v := verifU64("value")
	verifAssume(v <= fileSize)
	return v
}


// C04.legacy8.search — per-bucket lemma for the legacy format compactindex: n entries with arbitrary
// pairwise distinct 24-bit hashes (inserted in several orders) and arbitrary values, laid out by
// the real sortWithCompare/eytzinger (with hashBucket's three-way comparator) + marshalEntry and
// read back through BucketHeader.readFrom + Bucket.loadEntry/unmarshalEntry + searchEytzinger
// over an io.SectionReader: a lookup of ANY 24-bit hash returns the value stored with it, or
// ErrNotFound if it is not stored; the bytes do not depend on the insertion order.
func VerifC04LegacySearch() {
	nmin, nmax := verifParam("nmin", 1), verifParam("nmax", 8)
	n := nmin + verifChoice("n", nmax-nmin+1)
	fileSize := verifC04FileSize()
	perm := verifC04Perm(n, verifChoice("order", verifC04NumPerms(n, verifParam("orders", 3))))
	h := make([]uint64, n)
	vals := make([]uint64, n)
	for i := range h {
		h[i] = uint64(verifU32("hash"))
		verifAssume(h[i] < 1<<24)
		for j := 0; j < i; j++ {
			verifAssume(h[j] < h[i])
		}
		vals[i] = verifC04Val(fileSize)
	}
	write := func(path string, order []int) *os.File {
		entries := make([]Entry, n)
		for k, i := range order {
			entries[k] = Entry{Hash: h[i], Value: vals[i]}
		}
		sortWithCompare(entries, func(i, j int) int {
			if entries[i].Hash < entries[j].Hash {
				return -1
			} else if entries[i].Hash > entries[j].Hash {
				return 1
			}
			return 0
		})
		f, err := os.OpenFile(path, os.O_CREATE|os.O_RDWR|os.O_TRUNC, 0o666)
		verifAssert(err == nil, "C04.legacy8.search: create")
		desc := BucketDescriptor{
			BucketHeader: BucketHeader{HashDomain: 7, NumEntries: uint32(n), HashLen: 3, FileOffset: uint64(headerSize + bucketHdrLen)},
			Stride:      3 + verifC04Width(fileSize),
			OffsetWidth: verifC04Width(fileSize),
		}
		_, err = f.Write(make([]byte, headerSize+bucketHdrLen))
		verifAssert(err == nil, "C04.legacy8.search: write")
		buf := make([]byte, desc.Stride)
		for _, e := range entries {
			desc.marshalEntry(buf, e)
			_, err = f.Write(buf)
			verifAssert(err == nil, "C04.legacy8.search: write")
		}
		verifAssert(desc.BucketHeader.writeTo(f, 0) == nil, "C04.legacy8.search: bucket header write")
		return f
	}
	p1, p2 := verifTempPath("b1.idx"), verifTempPath("b2.idx")
	f := write(p1, perm)
	id := make([]int, n)
	for i := range id {
		id[i] = i
	}
	write(p2, id)
	img := verifMemFileBytes(p1)
	verifAssert(len(img) == headerSize+bucketHdrLen+n*(3+int(verifC04Width(fileSize))), "C04.legacy8.search: file size")
	verifAssert(bytes.Equal(img, verifMemFileBytes(p2)), "C04.legacy8.search: bucket bytes depend on the insertion order")

	db := &DB{Header: Header{FileSize: fileSize, NumBuckets: 1}, Stream: f}
	b, err := db.GetBucket(0)
	verifAssert(err == nil, "C04.legacy8.search: GetBucket")
	verifAssert(b.NumEntries == uint32(n) && b.HashLen == 3 && b.HashDomain == 7, "C04.legacy8.search: bucket header round trip")
	x := uint64(verifU32("x"))
	verifAssume(x < 1<<24)
	got, err := searchEytzinger(0, int(b.NumEntries), x, b.loadEntry)
	var member uint64
	for i := range h {
		member |= verifIteU64(x == h[i], 1, 0)
	}
	if err != nil {
		verifAssert(errors.Is(err, ErrNotFound), "C04.legacy8.search: error other than ErrNotFound")
		verifAssert(member == 0, "C04.legacy8.search: stored hash not found (entry lost)")
		verifReach("notfound")
	} else {
		verifAssert(member == 1, "C04.legacy8.search: absent hash reported as found")
		var bad uint64
		for i := range h {
			bad |= verifIteU64(x == h[i], 1, 0) &^ verifIteU64(got == vals[i], 1, 0)
		}
		verifAssert(bad == 0, "C04.legacy8.search: lookup returned a value other than the one inserted with the hash")
		verifReach("found")
	}
	verifReach("end")
}

// verifC04Attempts is the attempt bound the registry rewrites mineAttempts to.
const verifC04Attempts = 2

// verifC04AllNoncesCollide returns 1 iff for every nonce < verifC04Attempts two keys of the same
// bucket have equal masked entry hashes (branch-free).
func verifC04AllNoncesCollide(numBuckets uint32, keys [][]byte) uint64 {
	h := &Header{NumBuckets: numBuckets}
	all := uint64(1)
	for nonce := uint32(0); nonce < verifC04Attempts; nonce++ {
		var coll uint64
		for i := range keys {
			for j := 0; j < i; j++ {
				sameBucket := verifIteU64(h.BucketHash(keys[i]) == h.BucketHash(keys[j]), 1, 0)
				sameHash := verifIteU64(EntryHash64(nonce, keys[i])&0xffffff == EntryHash64(nonce, keys[j])&0xffffff, 1, 0)
				coll |= sameBucket & sameHash
			}
		}
		all &= coll
	}
	return all
}

func verifC04LegacyBuild(path string, declared uint, fileSize uint64, keys [][]byte, vals []uint64, order []int) error {
	b, err := NewBuilder("", declared, fileSize)
	verifAssert(err == nil, "C04.legacy8.seal: NewBuilder failed")
	defer b.Close()
	for _, i := range order {
		if err := b.Insert(keys[i], vals[i]); err != nil {
			return err
		}
	}
	f, err := os.OpenFile(path, os.O_CREATE|os.O_RDWR|os.O_TRUNC, 0o666)
	verifAssert(err == nil, "C04.legacy8.seal: create")
	defer f.Close()
	return b.Seal(context.Background(), f)
}

// C04.legacy8.seal — real NewBuilder / Insert / Seal / Open / DB.Lookup of the legacy format compactindex on
// the in-memory file system: k distinct keys in every insertion order, arbitrary values,
// arbitrary hash functions (uninterpreted, low bits bounded), 1 or 2 buckets. Seal succeeds iff a
// nonce within the attempt bound separates the keys; then every inserted key is found with
// exactly its value and another insertion order yields identical bytes; a duplicate key makes
// Seal fail with ErrCollision.
func VerifC04LegacySeal() {
	k := 1 + verifChoice("keys", verifParam("maxkeys", 3))
	verifC04HashRange = uint64(verifParam("hashrange", 3))
	decls := []uint{1, 10000, 10001}
	declared := decls[verifChoice("declared", len(decls))]
	fileSize := verifC04FileSize()
	dup := verifChoice("duplicate", 2) == 1
	keys := make([][]byte, k)
	vals := make([]uint64, k)
	for i := range keys {
		keys[i] = verifC04Key(i)
		vals[i] = verifC04Val(fileSize)
	}
	if dup {
		keys = append(keys, keys[k-1])
		vals = append(vals, verifC04Val(fileSize))
	}
	n := len(keys)
	order := verifC04Perm(n, verifChoice("order", verifC04NumPerms(n, 3)))
	id := make([]int, n)
	for i := range id {
		id[i] = i
	}
	p1 := verifTempPath("a.idx")
	err := verifC04LegacyBuild(p1, declared, fileSize, keys, vals, order)
	if dup {
		verifAssert(err != nil, "C04.legacy8.seal: duplicate key accepted (Seal succeeded)")
		verifAssert(errors.Is(err, ErrCollision), "C04.legacy8.seal: duplicate key fails with an error other than ErrCollision")
		verifReach("dup-rejected")
		verifReach("end")
		return
	}
	if err != nil {
		verifAssert(errors.Is(err, ErrCollision), "C04.legacy8.seal: Seal failed with an error other than ErrCollision")
		verifAssert(verifC04AllNoncesCollide(uint32((declared+9999)/10000), keys) == 1, "C04.legacy8.seal: Seal reported ErrCollision although a nonce within the attempt bound separates all keys")
		verifReach("mining-failed")
		verifReach("end")
		return
	}
	p2 := verifTempPath("b.idx")
	verifAssert(verifC04LegacyBuild(p2, declared, fileSize, keys, vals, id) == nil, "C04.legacy8.seal: the same inserts in another order fail to seal")
	verifAssert(bytes.Equal(verifMemFileBytes(p1), verifMemFileBytes(p2)), "C04.legacy8.seal: sealed files differ for the same inserts")
	f, err := os.Open(p1)
	verifAssert(err == nil, "C04.legacy8.seal: reopen")
	var rd io.ReaderAt = f
	db, err := Open(rd)
	verifAssert(err == nil, "C04.legacy8.seal: Open failed on a freshly sealed index")
	verifAssert(db.Header.NumBuckets == uint32((declared+9999)/10000), "C04.legacy8.seal: bucket count")
	for i := range keys {
		got, err := db.Lookup(keys[i])
		verifAssert(err == nil, "C04.legacy8.seal: inserted key not found")
		verifAssert(got == vals[i], "C04.legacy8.seal: inserted key found with another value")
	}
	verifReach("sealed")
	verifReach("end")
}
