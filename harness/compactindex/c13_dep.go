//go:build verif

package compactindex

import (
	"encoding/binary"
	"errors"
	"io"
)

// C13 — deprecated/compactindex (legacy cid-to-offset index, 8-byte values): same claim as
// C13.cidx for the legacy format: fixed 32-byte header (magic, FileSize, NumBuckets, version),
// value width = bytes needed for FileSize.

type verifC13File struct {
	data []byte
	t    int64 // visible length (symbolic for the truncated view)
	mmap bool
}

var verifC13ErrOffset = errors.New("mmap: invalid ReadAt offset")

func (f *verifC13File) ReadAt(p []byte, off int64) (int, error) {
	if off < 0 {
		return 0, verifC13ErrOffset
	}
	if off+int64(len(p)) <= f.t { // whole request inside the visible part
		copy(p, f.data[off:])
		return len(p), nil
	}
	if f.mmap && off > f.t {
		return 0, verifC13ErrOffset
	}
	avail := f.t - off
	n := int64(verifIteU64(avail > 0, uint64(avail), 0))
	for i := range p {
		if j := off + int64(i); j < int64(len(f.data)) {
			p[i] = byte(verifIteU64(int64(i) < n, uint64(f.data[j]), uint64(p[i])))
		}
	}
	return int(n), io.EOF
}

var verifC13Hash [16]uint64
var verifC13Bucket [16]uint

func EntryHash64(prefix uint32, key []byte) uint64 { return verifC13Hash[key[0]] }
func (h *Header) BucketHash(key []byte) uint       { return verifC13Bucket[key[0]] }

// verifC13Eytzinger: the eytzinger (BFS) order of a sorted slice - harness copy of the layout the
// format defines.
func verifC13Eytzinger(in, out []Entry, i, k int) int {
	if k <= len(in) {
		i = verifC13Eytzinger(in, out, i, 2*k)
		out[k-1] = in[i]
		i++
		i = verifC13Eytzinger(in, out, i, 2*k+1)
	}
	return i
}

func verifC13Put(buf []byte, x uint64) {
	var full [8]byte
	binary.LittleEndian.PutUint64(full[:], x)
	copy(buf, full[:])
}

func VerifC13CidxDep() {
	fsizes := []uint64{1000, 1 << 40, 1<<64 - 1} // value width 2, 6, 8
	widths := []int{2, 6, 8}                     // bytes needed to represent FileSize = width of the stored offsets
	fi := verifChoice("filesize", verifParam("fsizes", 2))
	fileSize, W := fsizes[fi], widths[fi]
	const headerSize, bucketHdrLen = 32, 16 // format constants
	nb := 1 + verifChoice("buckets", verifParam("maxbuckets", 2))
	minN := verifParam("minN", 1)
	n := minN + verifChoice("n", verifParam("N", 3)-minN+1)
	const mask = uint64(1)<<24 - 1
	stride := 3 + W
	total := headerSize + nb*bucketHdrLen + (n+nb-1)*stride
	img := make([]byte, total)
	var hb [headerSize]byte
	(&Header{FileSize: fileSize, NumBuckets: uint32(nb)}).Store(&hb)
	copy(img, hb[:])
	off := headerSize + nb*bucketHdrLen
	var vals []uint64
	key := 0
	for b := 0; b < nb; b++ {
		cnt := 1
		if b == 0 {
			cnt = n
		}
		entries := make([]Entry, cnt)
		for j := 0; j < cnt; j++ {
			H := verifU64("H")
			verifC13Hash[key] = H
			verifC13Bucket[key] = uint(b)
			if j > 0 {
				verifAssume(entries[j-1].Hash < H&mask)
			}
			v := verifU64("val")
			verifAssume(v <= fileSize) // values are offsets into the CAR of that size
			entries[j] = Entry{Hash: H & mask, Value: v}
			vals = append(vals, v)
			key++
		}
		laid := make([]Entry, cnt)
		verifC13Eytzinger(entries, laid, 0, 1)
		for i, e := range laid {
			// entry = 3-byte little-endian hash, then the W-byte little-endian value
			verifC13Put(img[off+i*stride:off+i*stride+3], e.Hash)
			verifC13Put(img[off+i*stride+3:off+(i+1)*stride], e.Value)
		}
		var bb [bucketHdrLen]byte
		bh := BucketHeader{HashDomain: uint32(7 + b), NumEntries: uint32(cnt), HashLen: 3, FileOffset: uint64(off)}
		bh.Store(&bb)
		copy(img[headerSize+b*bucketHdrLen:], bb[:])
		off += cnt * stride
	}
	N := int64(total)
	q := verifChoice("key", len(vals))
	k := []byte{byte(q)}
	prefetch := verifChoice("prefetch", 2) == 1

	full, err := Open(&verifC13File{data: img, t: N})
	verifAssert(err == nil, "C13.cidx.dep: the complete file does not open")
	full.Prefetch(prefetch)
	want, err := full.Lookup(k)
	verifAssert(err == nil, "C13.cidx.dep: the complete file does not answer a stored key")
	verifAssert(want == vals[q], "C13.cidx.dep: the complete file answers a stored key with another value")

	T := int64(verifU16("T"))
	verifAssume(T < N)
	db, err := Open(&verifC13File{data: img, t: T, mmap: verifChoice("reader", 2) == 1})
	if err != nil {
		verifAssert(db == nil, "C13.cidx.dep: Open returned both a handle and an error")
		verifReach("open-error")
		verifReach("end")
		return
	}
	verifAssert(db.FileSize == fileSize && db.NumBuckets == uint32(nb), "C13.cidx.dep: truncated index opens with different header fields")
	db.Prefetch(prefetch)
	got, err := db.Lookup(k)
	if err != nil {
		verifAssert(!errors.Is(err, ErrNotFound), "C13.cidx.dep: truncated index answers a stored key with 'not found'")
		verifReach("lookup-error")
	} else {
		verifAssert(got == want, "C13.cidx.dep: truncated index answers a stored key with a different value")
		verifReach("lookup-same")
	}
	verifReach("end")
}
