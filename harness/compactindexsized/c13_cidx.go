//go:build verif

package compactindexsized

import (
	"bytes"
	"encoding/binary"
	"errors"
	"io"

	"github.com/rpcpool/yellowstone-faithful/indexmeta"
)

// C13 — compactindexsized (cid-to-offset-and-size, slot-to-cid, sig-to-cid, pubkey-to-offset:
// all four kinds are this one format with different value sizes): a file cut short at ANY byte
// offset either fails to open, or answers a stored key with the stored value, or fails the
// lookup with an error that is not ErrNotFound.
//
// Model of the storage: verifC13File, an io.ReaderAt over the complete image whose visible
// length t is symbolic (0 <= t < len). It honours the io.ReaderAt contract the way
// bytes.Reader / os.File do (n = min(len(p), t-off), io.EOF iff n < len(p)); in "mmap" mode an
// offset beyond the end yields a non-EOF error like golang.org/x/exp/mmap.ReaderAt does.
// Cut: EntryHash64 and Header.BucketHash (xxhash) = tables indexed by the first key byte.

type verifC13File struct {
	data  []byte
	t     int64 // visible length (symbolic for the truncated view)
	mmap  bool
	reads int
}

var verifC13ErrOffset = errors.New("mmap: invalid ReadAt offset")

func (f *verifC13File) ReadAt(p []byte, off int64) (int, error) {
	f.reads++
	if off < 0 {
		return 0, verifC13ErrOffset
	}
	if off+int64(len(p)) <= f.t { // whole request inside the visible part
		copy(p, f.data[off:])
		return len(p), nil
	}
	if f.mmap && off > f.t {
		return 0, verifC13ErrOffset
	}
	// short read: n = max(0, t-off) bytes, branch-free in n
	avail := f.t - off
	n := int64(verifIteU64(avail > 0, uint64(avail), 0))
	for i := range p {
		if j := off + int64(i); j < int64(len(f.data)) {
			p[i] = byte(verifIteU64(int64(i) < n, uint64(f.data[j]), uint64(p[i])))
		}
	}
	return int(n), io.EOF
}

var verifC13Hash [16]uint64 // EntryHash64 of the key whose first byte is i
var verifC13Bucket [16]uint // Header.BucketHash of the key whose first byte is i

// model of EntryHash64 (the real one is renamed to verifOrig_EntryHash64)
func EntryHash64(prefix uint32, key []byte) uint64 { return verifC13Hash[key[0]] }

// model of (*Header).BucketHash (the real one is renamed)
func (h *Header) BucketHash(key []byte) uint { return verifC13Bucket[key[0]] }

// verifC13Eytzinger: the eytzinger (BFS) order of a sorted slice - harness copy of the layout the
// format defines (the builder's own function is exercised by C04).
func verifC13Eytzinger(in, out []Entry, i, k int) int {
	if k <= len(in) {
		i = verifC13Eytzinger(in, out, i, 2*k)
		out[k-1] = in[i]
		i++
		i = verifC13Eytzinger(in, out, i, 2*k+1)
	}
	return i
}

// verifC13Image lays out a complete, well-formed index: real Header.Bytes (one metadata pair),
// nb bucket headers (real Store), bucket 0 with n entries in eytzinger order (entry bytes laid out
// by the harness), every further bucket with one entry. Hashes (24 bit) and values are
// arbitrary. Returns the image, the stored values per key and the section boundaries.
func verifC13Image(V, nb, n int) (img []byte, vals [][]byte, bounds []int) {
	const mask = uint64(1)<<24 - 1
	var meta indexmeta.Meta
	meta.Add([]byte("kind"), []byte("c13"))
	hdr := (&Header{ValueSize: uint64(V), NumBuckets: uint32(nb), Metadata: &meta}).Bytes()
	const hashSize, bucketHdrLen = 3, 16 // format constants (HashSize, bucket header length)
	stride := hashSize + V
	total := len(hdr) + nb*bucketHdrLen + (n+nb-1)*stride
	img = make([]byte, total)
	copy(img, hdr)
	bounds = append(bounds, 8, 12, len(hdr))
	off := len(hdr) + nb*bucketHdrLen
	key := 0
	for b := 0; b < nb; b++ {
		cnt := 1
		if b == 0 {
			cnt = n
		}
		entries := make([]Entry, cnt)
		for j := 0; j < cnt; j++ {
			H := verifU64("H")
			verifC13Hash[key] = H
			verifC13Bucket[key] = uint(b)
			if j > 0 {
				verifAssume(entries[j-1].Hash < H&mask) // collision-free, sorted (builder invariant)
			}
			v := verifBytes("val", V)
			entries[j] = Entry{Hash: H & mask, Value: v}
			vals = append(vals, v)
			key++
		}
		laid := make([]Entry, cnt)
		verifC13Eytzinger(entries, laid, 0, 1)
		// eytzinger permutes: remember which key sits where is not needed (lookup is by hash)
		for i, e := range laid {
			// entry = 3-byte little-endian hash, then the value bytes
			var hb8 [8]byte
			binary.LittleEndian.PutUint64(hb8[:], e.Hash)
			copy(img[off+i*stride:], hb8[:hashSize])
			copy(img[off+i*stride+hashSize:off+(i+1)*stride], e.Value)
		}
		var hb [bucketHdrLen]byte
		bh := BucketHeader{HashDomain: uint32(7 + b), NumEntries: uint32(cnt), HashLen: hashSize, FileOffset: uint64(off)}
		bh.Store(&hb)
		copy(img[len(hdr)+b*bucketHdrLen:], hb[:])
		bounds = append(bounds, len(hdr)+(b+1)*bucketHdrLen, off)
		off += cnt * stride
	}
	bounds = append(bounds, total)
	return img, vals, bounds
}

// C13.cidx — Open + DB.Lookup (with and without prefetch) on the complete image and on the image
// cut at a symbolic offset.
func VerifC13Cidx() {
	vsizes := []int{2, 9, 36}
	V := vsizes[verifChoice("valuesize", verifParam("vsizes", 2))]
	nb := 1 + verifChoice("buckets", verifParam("maxbuckets", 2))
	minN := verifParam("minN", 1)
	n := minN + verifChoice("n", verifParam("N", 3)-minN+1)
	img, vals, _ := verifC13Image(V, nb, n)
	N := int64(len(img))

	q := verifChoice("key", len(vals))
	key := []byte{byte(q)}
	prefetch := verifChoice("prefetch", 2) == 1

	// the complete file answers every stored key with its value
	full, err := Open(&verifC13File{data: img, t: N})
	verifAssert(err == nil, "C13.cidx: the complete file does not open")
	full.Prefetch(prefetch)
	want, err := full.Lookup(key)
	verifAssert(err == nil, "C13.cidx: the complete file does not answer a stored key")
	verifAssert(bytes.Equal(want, vals[q]), "C13.cidx: the complete file answers a stored key with another value")

	// the same file cut at offset T
	T := int64(verifU16("T"))
	verifAssume(T < N)
	f := &verifC13File{data: img, t: T, mmap: verifChoice("reader", 2) == 1}
	db, err := Open(f)
	if err != nil {
		verifAssert(db == nil, "C13.cidx: Open returned both a handle and an error")
		verifReach("open-error")
		verifReach("end")
		return
	}
	// an opened handle carries the header of the complete file
	verifAssert(db.Header.ValueSize == uint64(V) && db.Header.NumBuckets == uint32(nb), "C13.cidx: truncated index opens with different header fields")
	verifAssert(bytes.Equal(db.Header.Metadata.Bytes(), full.Header.Metadata.Bytes()), "C13.cidx: truncated index opens with different metadata")
	db.Prefetch(prefetch)
	got, err := db.Lookup(key)
	if err != nil {
		verifAssert(!IsNotFound(err) && err != ErrNotFound, "C13.cidx: truncated index answers a stored key with 'not found'")
		verifAssert(got == nil, "C13.cidx: Lookup returned both a value and an error")
		verifReach("lookup-error")
	} else {
		verifAssert(bytes.Equal(got, want), "C13.cidx: truncated index answers a stored key with a different value")
		verifReach("lookup-same")
	}
	verifReach("end")
}
