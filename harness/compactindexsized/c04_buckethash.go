//go:build verif

package compactindexsized

// C04.buckethash — Header.BucketHash (builder and reader use the same method), with
// xxhash.Sum64 cut (arbitrary 64-bit value u) and the real hashUint64: for the bucket counts
// of indexes up to 70 000 declared items (1..7) and a few larger ones, for EVERY u the call
// returns, the result is < NumBuckets (Insert never indexes outside b.buckets, GetBucket never
// reports "out of bounds") and equals (first value of u, f(u), f(f(u)) that is >= r) mod n.
// Known finding C04-buckethash-zero-fixpoint: hashUint64(0) == 0, so for u == 0 and r != 0
// (NumBuckets not a power of two) the rejection loop `for u < r` never terminates. It is
// observed through a counting wrapper around the real hashUint64 (renamed verifOrig_hashUint64).
func VerifC04BucketHash() {
	ns := []uint32{1, 2, 3, 4, 5, 7, 4294967295}
	if verifParam("more", 0) == 1 {
		ns = append(ns, 6, 10, 100, 1000)
	}
	n := ns[verifChoice("numBuckets", len(ns))]
	key := []byte{1, 2, 3}
	u := verifC04Sum64(key)
	nn := uint64(n)
	r := (-nn) % nn
	verifAssert(r < nn, "C04.buckethash: r")
	verifKnownFinding("C04-buckethash-zero-fixpoint", u == 0 && r != 0)
	h := &Header{NumBuckets: n}
	verifC04Rounds = 0
	got := h.BucketHash(key) // more than 3 rounds of the rejection loop are reported by the hashUint64 wrapper
	verifAssert(verifC04Rounds == 0 || u < r, "C04.buckethash: accepted hash re-hashed")
	verifAssert(uint64(got) < nn, "C04.buckethash: bucket index >= NumBuckets")
	h1 := verifOrig_hashUint64(u)
	h2 := verifOrig_hashUint64(h1)
	first := verifIteU64(u >= r, u, verifIteU64(h1 >= r, h1, h2))
	verifAssert(uint64(got) == first%nn, "C04.buckethash: not the residue of the first accepted hash")
	verifReach("end")
}


// verifC04Rounds counts the calls of hashUint64 made by the code under test.
var verifC04Rounds int

// hashUint64 (wrapper; the real function is renamed verifOrig_hashUint64): same values, but a
// 4th round inside one BucketHash call is reported as non-termination instead of spinning.
func hashUint64(x uint64) uint64 {
	verifC04Rounds++
	if verifC04Rounds > 3 {
		verifFail("C04.buckethash: rejection loop `for u < r` runs more than 3 rounds (u is a fixed point of hashUint64: it never terminates)")
	}
	return verifOrig_hashUint64(x)
}
