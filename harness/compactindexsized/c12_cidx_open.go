//go:build verif

package compactindexsized

import (
	"bytes"
	"encoding/binary"
)

// ---------------------------------------------------------------------------------------------
// C12.cidx.open — Open + Header.Load over a file of N arbitrary bytes (every byte symbolic).
// The length field (bytes 8..12) takes every value in [0, N+4] and every value above the
// allocation limit (the band in between only makes Open allocate, read short and return the
// read error; it is excluded to keep the number of concrete buffer lengths small).
func VerifC12CidxOpen() {
	lens := []int{verifParam("N", 40), 0, 7, 12, 24, 25, 26}
	N := lens[verifChoice("filelen", verifParam("lens", len(lens)))]
	limit := verifParam("alloc", 1<<20)
	verifAllocLimit(int64(limit))
	data := verifBytes("file", N)
	if N >= 12 {
		size := binary.LittleEndian.Uint32(data[8:12])
		verifAssume(size <= uint32(N+4) || size > uint32(limit-12))
		// known defects of Open/Header.Load (see /verif/proposed-fixes/C12-cidx-header-size.md)
		magicOK := *(*[8]byte)(data[:8]) == Magic
		verifKnownFinding("C12-cidx-hdr-len12", magicOK && size == 12 && N >= 24)
		verifKnownFinding("C12-cidx-size-wrap", magicOK && size >= 0xFFFFFFF4)
		verifKnownFinding("C12-cidx-size-alloc", magicOK && size > uint32(limit-12) && size < 0xFFFFFFF4)
		if N >= 26 {
			// metadata: arbitrary bytes, but no key-value pair is announced (the
			// metadata decoder over arbitrary bytes is C12.meta)
			verifAssume(data[25] == 0)
		}
	}
	db, err := Open(bytes.NewReader(data))
	if err != nil {
		verifAssert(db == nil, "C12.cidx.open: Open returned both a handle and an error")
		verifReach("open-error")
		verifReach("end")
		return
	}
	verifAssert(db != nil && db.Header != nil && db.Header.Metadata != nil, "C12.cidx.open: Open returned nil without an error")
	// what the query code relies on
	verifAssert(db.Header.ValueSize != 0, "C12.cidx.open: Open accepted value size 0 (GetValueSize would panic)")
	verifAssert(db.Header.NumBuckets != 0, "C12.cidx.open: Open accepted 0 buckets (BucketHash would divide by zero)")
	verifAssert(db.headerSize >= 25 && db.headerSize <= int64(N), "C12.cidx.open: header size outside the file")
	_ = db.GetValueSize()
	_, _ = db.GetKind()
	_ = db.KindIs([]byte("x"))
	verifReach("open-ok")
	verifReach("end")
}
