//go:build verif

package compactindexsized

import (
	"bytes"
	"os"

	"github.com/rpcpool/yellowstone-faithful/indexmeta"
)

// C04.header — file header and bucket header round trips.
//   Header.Bytes -> Open/Header.Load: ValueSize (>= 1), NumBuckets (>= 1) and metadata with
//   0..2 pairs of lengths 0..3 and arbitrary content come back unchanged; headerSize = len(Bytes).
//   BucketHeader.Store/Load and writeTo/readFrom at bucket index i: HashDomain, NumEntries,
//   HashLen and FileOffset < 2^48 come back unchanged and bucket headers do not overlap.
//   indexmeta limits: keys/values longer than 255 bytes and a 256th pair are rejected by Add.
func VerifC04Header() {
	h := &Header{ValueSize: verifU64("valueSize"), NumBuckets: verifU32("numBuckets"), Metadata: &indexmeta.Meta{}}
	verifAssume(h.ValueSize >= 1 && h.NumBuckets >= 1)
	lens := []int{0, 1, 3}
	m := verifChoice("pairs", 3)
	type kv struct{ k, v []byte }
	var kvs []kv
	for i := 0; i < m; i++ {
		k := verifBytes("mk", lens[verifChoice("klen", len(lens))])
		v := verifBytes("mv", lens[verifChoice("vlen", len(lens))])
		verifAssert(h.Metadata.Add(k, v) == nil, "C04.header: Metadata.Add rejected a short pair")
		kvs = append(kvs, kv{k, v})
	}
	img := h.Bytes()
	path := verifTempPath("hdr.idx")
	f, err := os.OpenFile(path, os.O_CREATE|os.O_RDWR|os.O_TRUNC, 0o666)
	verifAssert(err == nil, "C04.header: create")
	_, err = f.Write(img)
	verifAssert(err == nil, "C04.header: write")

	// bucket headers at two adjacent indices
	i := uint(verifChoice("bucketIndex", 3))
	bh := BucketHeader{HashDomain: verifU32("domain"), NumEntries: verifU32("numEntries"), HashLen: verifU8("hashLen"), FileOffset: verifU64("fileOffset")}
	verifAssume(bh.FileOffset < 1<<48)
	bh.headerSize = int64(len(img))
	bh2 := BucketHeader{HashDomain: verifU32("domain"), NumEntries: verifU32("numEntries"), HashLen: verifU8("hashLen"), FileOffset: verifU64("fileOffset")}
	verifAssume(bh2.FileOffset < 1<<48)
	bh2.headerSize = int64(len(img))
	verifAssert(bh.writeTo(f, i) == nil, "C04.header: bucket header write")
	verifAssert(bh2.writeTo(f, i+1) == nil, "C04.header: bucket header write")

	db, err := Open(f)
	verifAssert(err == nil, "C04.header: Open rejects a header produced by Header.Bytes")
	verifAssert(db.headerSize == int64(len(img)), "C04.header: header size")
	verifAssert(db.Header.ValueSize == h.ValueSize && db.Header.NumBuckets == h.NumBuckets, "C04.header: ValueSize/NumBuckets round trip")
	verifAssert(len(db.Header.Metadata.KeyVals) == m, "C04.header: number of metadata pairs")
	for j := range kvs {
		got := db.Header.Metadata.KeyVals[j]
		verifAssert(len(got.Key) == len(kvs[j].k) && len(got.Value) == len(kvs[j].v), "C04.header: metadata lengths")
		verifAssert(bytes.Equal(got.Key, kvs[j].k) && bytes.Equal(got.Value, kvs[j].v), "C04.header: metadata content")
	}
	var r1, r2 BucketHeader
	r1.headerSize, r2.headerSize = db.headerSize, db.headerSize
	verifAssert(r1.readFrom(f, i) == nil && r2.readFrom(f, i+1) == nil, "C04.header: bucket header read")
	verifAssert(r1 == bh, "C04.header: bucket header round trip (or overlap with the next header)")
	verifAssert(r2 == bh2, "C04.header: bucket header round trip (second)")
	verifAssert(bucketOffset(db.headerSize, i+1)-bucketOffset(db.headerSize, i) == bucketHdrLen && bucketOffset(db.headerSize, 0) == db.headerSize, "C04.header: bucket header table layout")

	// indexmeta limits
	var meta indexmeta.Meta
	verifAssert(meta.Add(make([]byte, 255), make([]byte, 255)) == nil, "C04.header: 255-byte key/value rejected")
	verifAssert(meta.Add(make([]byte, 256), nil) != nil, "C04.header: 256-byte metadata key accepted")
	verifAssert(meta.Add(nil, make([]byte, 256)) != nil, "C04.header: 256-byte metadata value accepted")
	b2, err := meta.MarshalBinary()
	verifAssert(err == nil && len(b2) == 1+1+255+1+255, "C04.header: marshal of maximal pair")
	var back indexmeta.Meta
	verifAssert(back.UnmarshalBinary(b2) == nil && len(back.KeyVals) == 1 && len(back.KeyVals[0].Key) == 255 && len(back.KeyVals[0].Value) == 255, "C04.header: maximal pair round trip")
	verifReach("end")
}

// C04.header.max — "metadata of any allowed shape": the largest metadata the builder accepts
// (indexmeta.MaxNumKVs pairs of maximal key and value length, and the neighbouring shapes) yields a
// header that Open accepts and reads back unchanged. Contents are concrete (one symbolic byte per
// pair would not change any length decision); the claim is about the length arithmetic.
func VerifC04HeaderMax() {
	shapes := [][3]int{ // pairs, key length, value length
		{indexmeta.MaxNumKVs, indexmeta.MaxKeySize, indexmeta.MaxValueSize},
		{indexmeta.MaxNumKVs, 0, 0},
		{indexmeta.MaxNumKVs - 1, indexmeta.MaxKeySize, indexmeta.MaxValueSize},
		{1, indexmeta.MaxKeySize, indexmeta.MaxValueSize},
		{indexmeta.MaxNumKVs, indexmeta.MaxKeySize, 0},
	}
	sh := shapes[verifChoice("shape", len(shapes))]
	h := &Header{ValueSize: 36, NumBuckets: 1, Metadata: &indexmeta.Meta{}}
	for i := 0; i < sh[0]; i++ {
		k := make([]byte, sh[1])
		v := make([]byte, sh[2])
		if len(k) > 0 {
			k[0] = byte(i)
		}
		if len(v) > 0 {
			v[len(v)-1] = byte(i + 1)
		}
		verifAssert(h.Metadata.Add(k, v) == nil, "C04.header.max: Metadata.Add rejected an allowed pair")
	}
	verifAssert(h.Metadata.Add([]byte{1}, []byte{2}) != nil || sh[0] < indexmeta.MaxNumKVs, "C04.header.max: more than MaxNumKVs pairs accepted")
	img := h.Bytes()
	path := verifTempPath("hdrmax.idx")
	f, err := os.OpenFile(path, os.O_CREATE|os.O_RDWR|os.O_TRUNC, 0o666)
	verifAssert(err == nil, "C04.header.max: create")
	_, err = f.Write(img)
	verifAssert(err == nil, "C04.header.max: write")
	bh := BucketHeader{HashDomain: 1, NumEntries: 0, HashLen: HashSize, FileOffset: uint64(len(img)) + bucketHdrLen}
	bh.headerSize = int64(len(img))
	verifAssert(bh.writeTo(f, 0) == nil, "C04.header.max: bucket header write")
	db, err := Open(f)
	verifAssert(err == nil, "C04.header.max: Open rejects a header the builder produced (metadata of an allowed shape)")
	if err == nil {
		verifAssert(db.headerSize == int64(len(img)), "C04.header.max: header size")
		verifAssert(len(db.Header.Metadata.KeyVals) == len(h.Metadata.KeyVals), "C04.header.max: number of metadata pairs")
		same := true
		for j := range h.Metadata.KeyVals {
			same = same && bytes.Equal(db.Header.Metadata.KeyVals[j].Key, h.Metadata.KeyVals[j].Key) && bytes.Equal(db.Header.Metadata.KeyVals[j].Value, h.Metadata.KeyVals[j].Value)
		}
		verifAssert(same, "C04.header.max: metadata content")
		_, lerr := db.Lookup([]byte("absent"))
		verifAssert(lerr == ErrNotFound, "C04.header.max: lookup on the empty bucket")
	}
	verifReach("end")
}
