//go:build verif

package compactindexsized

import (
	"bufio"
	"bytes"
	"errors"
	"io"
)

// C04.tuple — Builder.Insert/tempBucket.writeTuple -> flush -> hashBucket with the REAL 2 MiB
// collision bitmap, for 1..2 tuples, key lengths on both sides of the 8- and 16-bit limits
// (0, 1, 255, 256, 65535; 65536 must be refused), value sizes 1/8/36 with arbitrary content,
// entry hashes at the ends of the 24-bit range with arbitrary upper 40 bits:
//   - hashBucket reports ErrCollision iff the two masked hashes are equal, never indexes outside
//     the bitmap, and sets exactly the bits of the hashes;
//   - on success each entry carries the masked hash of its key and exactly the inserted value,
//     in a layout that searchEytzinger resolves;
//   - a key longer than 65535 bytes or a value whose length differs from the declared value
//     size must be refused by Insert (known findings C04-keylen-overflow, C04-S4-value-length).
func VerifC04Tuple() {
	// mode 0: supported sizes; 1..3: wrong value length; 4: key of 65536 bytes
	mode := verifChoice("mode", 5)
	if verifParam("wrong_value_len", 1) == 0 {
		// reuse under C01: the index writers always pass fixed-size encodings, so the value-length
		// modes (C04's concern, known finding C04-S4-value-length) are outside that claim
		verifAssume(mode == 0 || mode == 4)
	}
	sizes := []int{1, 8, 36}
	vs := sizes[verifChoice("valueSize", len(sizes))]
	klens := []int{0, 1, 255, 256, 65535}
	if mode == 4 {
		klens = []int{65536}
	} else if mode != 0 {
		klens = []int{1}
	}
	type pair struct{ a, b uint64 }
	hs := []pair{{0, 0xffffff}, {0xffffff, 0}, {7, 8}, {5, 5}, {0xfffff8, 0xffffff}, {0xffffff, 0xffffff}}
	if mode != 0 {
		hs = hs[:1]
	}
	k := 1 + verifChoice("tuples", 2)
	hi := verifChoice("hashes", len(hs))
	hp := hs[hi]
	low := []uint64{hp.a, hp.b}

	keys := make([][]byte, k)
	vals := make([][]byte, k)
	for i := range keys {
		if i == 0 {
			keys[i] = verifC04Key(0, klens[verifChoice("keyLen", len(klens))])
		} else {
			keys[i] = verifC04Key(1, -1) // second key: 2 bytes
		}
		vals[i] = verifBytes("value", vs)
	}
	verifC04HashLow = func(prefix uint32, key []byte) (uint64, bool) {
		for i := range keys {
			if bytes.Equal(key, keys[i]) { // concrete keys: a concrete comparison
				return low[i], true
			}
		}
		// the harness itself only hashes inserted keys, so this is the code under test
		verifFail("C04.tuple: the hash function received a key that was never inserted (key bytes changed between Insert and hashBucket)")
		return 0, false
	}

	b, err := NewBuilderSized("", 1, uint(vs))
	verifAssert(err == nil, "C04.tuple: NewBuilderSized")

	// unsupported sizes must be refused, and must leave the bucket unchanged
	switch mode {
	case 1:
		verifKnownFinding("C04-S4-value-length", true)
		verifAssert(b.Insert(keys[0], make([]byte, vs-1)) != nil, "C04.tuple: value shorter than the declared value size accepted (stored zero-padded)")
		verifReach("short-value-refused")
	case 2:
		verifKnownFinding("C04-S4-value-length", true)
		verifAssert(b.Insert(keys[0], make([]byte, vs+1)) != nil, "C04.tuple: value longer than the declared value size accepted (stored truncated)")
		verifReach("long-value-refused")
	case 3:
		verifKnownFinding("C04-S4-value-length", true)
		verifAssert(b.Insert(keys[0], nil) != nil, "C04.tuple: nil value accepted")
		verifReach("nil-value-refused")
	}
	for i := range keys {
		err := b.Insert(keys[i], vals[i])
		if len(keys[i]) > 65535 {
			verifKnownFinding("C04-keylen-overflow", true)
			verifAssert(err != nil, "C04.tuple: key longer than 65535 bytes accepted (its 16-bit length prefix wraps, the bucket file is corrupted)")
			verifReach("long-key-refused")
			verifReach("end")
			return
		}
		verifAssert(err == nil, "C04.tuple: Insert failed")
	}
	tb := &b.buckets[0]
	verifAssert(tb.records == uint(k), "C04.tuple: record count")
	verifAssert(tb.flush() == nil, "C04.tuple: flush")
	_, err = tb.file.Seek(0, io.SeekStart)
	verifAssert(err == nil, "C04.tuple: seek")
	entries := make([]Entry, tb.records)
	bitmap := make([]byte, 1<<21)
	nonce := uint32(hi%2) * 499
	err = hashBucket(tb.valueSize, bufio.NewReader(tb.file), entries, bitmap, nonce)
	collide := k == 2 && low[0] == low[1]
	if collide {
		verifAssert(errors.Is(err, ErrCollision), "C04.tuple: equal masked hashes not reported as ErrCollision")
		verifReach("collision")
		verifReach("end")
		return
	}
	verifAssert(err == nil, "C04.tuple: hashBucket failed on distinct hashes")
	for i := range keys {
		want := EntryHash64(nonce, keys[i]) & 0xffffff
		verifAssert(want == low[i], "C04.tuple: model")
		verifAssert(bitmap[want/8]>>(want%8)&1 == 1, "C04.tuple: bitmap bit of a stored hash not set")
		j := i
		got, err := searchEytzinger(0, len(entries), want, func(x int) (Entry, error) { return entries[x], nil })
		verifAssert(err == nil, "C04.tuple: entry of an inserted key missing after hashBucket")
		verifAssert(len(got) == vs && bytes.Equal(got, vals[j]), "C04.tuple: entry carries another value than the inserted one")
	}
	for _, e := range entries {
		verifAssert(e.Hash <= 0xffffff, "C04.tuple: entry hash not masked to 24 bits")
	}
	verifAssert(b.Close() == nil, "C04.tuple: Close")
	verifReach("hashed")
	verifReach("end")
}
