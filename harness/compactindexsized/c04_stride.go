//go:build verif

package compactindexsized

import "os"

// C04.stride — for EVERY value size the constructor accepts (symbolic 64-bit valueSizeBytes)
// and declared item counts on both sides of the bucket-count boundaries: the entry stride is
// 3+valueSize without 8-bit wrap-around, builder (getEntryStride, OffsetWidth) and reader
// (DB.GetBucket: Stride, OffsetWidth) agree, every temp bucket got the value size, and
// the number of buckets is ceil(numItems/10000). Sizes 0 and > 255 must be rejected.
func VerifC04Stride() {
	items := []uint{1, 9999, 10000, 10001, 20000, 20001, 60000}
	numItems := items[verifChoice("numItems", len(items))]
	vs := verifU64("valueSize")
	b, err := NewBuilderSized("", numItems, uint(vs))
	if err != nil {
		verifAssert(vs == 0 || vs > 252, "C04.stride: value size in 1..252 rejected")
		verifAssert(b == nil, "C04.stride: builder returned together with an error")
		verifReach("rejected")
		verifReach("end")
		return
	}
	verifAssert(vs >= 1 && vs <= 255, "C04.stride: unsupported value size accepted")
	want := (numItems + 9999) / 10000
	verifAssert(uint(len(b.buckets)) == want && uint(b.Header.NumBuckets) == want, "C04.stride: number of buckets is not ceil(numItems/10000)")
	verifAssert(b.Header.ValueSize == vs && uint64(b.getValueSize()) == vs, "C04.stride: header value size")
	for i := range b.buckets {
		verifAssert(uint64(b.buckets[i].valueSize) == vs, "C04.stride: temp bucket value size")
	}
	verifKnownFinding("C04-S3-stride-wrap", vs > 252)
	verifAssert(uint64(b.getEntryStride()) == 3+vs, "C04.stride: builder entry stride wraps around 8 bits (accepted value size > 252)")
	// reader side through the public DB.GetBucket over a file holding one (empty) bucket header
	raw := make([]byte, bucketHdrLen)
	raw[8] = HashSize // BucketHeader.HashLen
	path := verifTempPath("stride.idx")
	verifMemFile(path, raw)
	f, err := os.Open(path)
	verifAssert(err == nil, "C04.stride: open")
	db := &DB{Header: &Header{ValueSize: vs, NumBuckets: b.Header.NumBuckets}, Stream: f}
	bkt, err := db.GetBucket(0)
	verifAssert(err == nil, "C04.stride: the reader refuses a value size the builder accepts")
	verifAssert(bkt.Stride == b.getEntryStride(), "C04.stride: reader and builder disagree on the entry stride")
	verifAssert(uint64(bkt.Stride) == 3+vs, "C04.stride: reader entry stride wraps around")
	verifAssert(uint64(bkt.OffsetWidth) == vs && uint64(uint8(db.GetValueSize())) == vs && uint64(uint8(b.getValueSize())) == vs, "C04.stride: offset width truncated")
	verifAssert(b.Close() == nil, "C04.stride: Close")
	verifReach("accepted")
	verifReach("end")
}

