//go:build verif

package compactindexsized

import (
	"bytes"
	"errors"
	"io"
	"os"
)

// verifC04Perm returns the which-th insertion order of n elements:
// 0 identity, 1 reverse, 2 rotate by n/2, 3 odd positions first then even, 4 an LCG shuffle.
// For n <= 3 `which` enumerates all n! orders.
func verifC04Perm(n, which int) []int {
	p := make([]int, n)
	for i := range p {
		p[i] = i
	}
	if n <= 3 {
		all := [][]int{{0, 1, 2}, {0, 2, 1}, {1, 0, 2}, {1, 2, 0}, {2, 0, 1}, {2, 1, 0}}
		if n == 3 {
			return all[which%6]
		}
		if n == 2 && which%2 == 1 {
			return []int{1, 0}
		}
		return p
	}
	switch which {
	case 1:
		for i := range p {
			p[i] = n - 1 - i
		}
	case 2:
		for i := range p {
			p[i] = (i + n/2) % n
		}
	case 3:
		k := 0
		for i := 1; i < n; i += 2 {
			p[k] = i
			k++
		}
		for i := 0; i < n; i += 2 {
			p[k] = i
			k++
		}
	case 4:
		s := uint32(12345 + n)
		for i := n - 1; i > 0; i-- {
			s = s*1103515245 + 12345
			j := int((s >> 8) % uint32(i+1))
			p[i], p[j] = p[j], p[i]
		}
	}
	return p
}

func verifC04NumPerms(n, want int) int {
	switch {
	case n <= 1:
		return 1
	case n == 2:
		return 2
	case n == 3:
		return 6
	}
	return want
}

// verifC04WriteBucket lays out `entries` (in the given order) exactly as hashBucket +
// sealBucket do after hashing: sortWithCompare with hashBucket's comparator, marshalEntry of
// every entry through a bufio-free direct write, bucket header through writeTo.
func verifC04WriteBucket(path string, entries []Entry, valueSize int, headerSize int64) *os.File {
	f, err := os.OpenFile(path, os.O_CREATE|os.O_RDWR|os.O_TRUNC, 0o666)
	verifAssert(err == nil, "C04.search: cannot create file")
	sortWithCompare(entries, func(i, j int) bool {
		return entries[i].Hash < entries[j].Hash
	})
	desc := BucketDescriptor{
		BucketHeader: BucketHeader{
			HashDomain: 7,
			NumEntries: uint32(len(entries)),
			HashLen:    HashSize,
			FileOffset: uint64(headerSize + bucketHdrLen),
		},
		Stride:      uint8(HashSize) + uint8(valueSize),
		OffsetWidth: uint8(valueSize),
	}
	desc.BucketHeader.headerSize = headerSize
	pad := make([]byte, headerSize+bucketHdrLen)
	_, err = f.Write(pad)
	verifAssert(err == nil, "C04.search: write failed")
	entryBuf := make([]byte, desc.Stride)
	for _, e := range entries {
		desc.marshalEntry(entryBuf, e)
		_, err = f.Write(entryBuf)
		verifAssert(err == nil, "C04.search: write failed")
	}
	verifAssert(desc.BucketHeader.writeTo(f, 0) == nil, "C04.search: bucket header write failed")
	return f
}

// C04.search — the per-bucket lemma: for n entries with arbitrary pairwise distinct 24-bit
// hashes, inserted in several orders, with arbitrary values, the layout produced by the real
// sortWithCompare/eytzinger + marshalEntry and read back through the real
// BucketHeader.readFrom + Bucket.loadEntry/unmarshalEntry + searchEytzinger over an
// io.SectionReader satisfies: a lookup of ANY 24-bit hash x returns the value stored with x if x
// is stored and ErrNotFound otherwise; the bytes on disk do not depend on the insertion order.
func VerifC04Search() {
	nmin, nmax := verifParam("nmin", 1), verifParam("nmax", 8)
	n := nmin + verifChoice("n", nmax-nmin+1)
	sizes := []int{1, 8, 9, 36, 48, 252}
	if s := verifParam("vsize", 0); s != 0 {
		sizes = []int{s}
	}
	vs := sizes[verifChoice("valueSize", len(sizes))]
	perm := verifC04Perm(n, verifChoice("order", verifC04NumPerms(n, verifParam("orders", 3))))

	// sorted symbolic hashes h[0] < h[1] < ... < h[n-1] < 2^24 (every set of n distinct hashes)
	h := make([]uint64, n)
	vals := make([][]byte, n)
	for i := range h {
		h[i] = uint64(verifU32("hash"))
		verifAssume(h[i] < 1<<24)
		for j := 0; j < i; j++ { // pairwise (redundant, but spares the solver the transitivity chains)
			verifAssume(h[j] < h[i])
		}
		vals[i] = verifBytes("value", vs)
	}
	mk := func(order []int) []Entry {
		es := make([]Entry, n)
		for k, i := range order {
			es[k] = Entry{Hash: h[i], Value: vals[i]}
		}
		return es
	}
	const headerSize = 29
	path := verifTempPath("bucket.idx")
	f := verifC04WriteBucket(path, mk(perm), vs, headerSize)
	img := verifMemFileBytes(path)
	verifAssert(len(img) == headerSize+bucketHdrLen+n*(3+vs), "C04.search: file size is not header + n*stride")

	// order independence: the identity order gives the same bytes
	id := make([]int, n)
	for i := range id {
		id[i] = i
	}
	path2 := verifTempPath("bucket2.idx")
	verifC04WriteBucket(path2, mk(id), vs, headerSize)
	verifAssert(bytes.Equal(img, verifMemFileBytes(path2)), "C04.search: bucket bytes depend on the insertion order")

	// reader side
	b := &Bucket{BucketDescriptor: BucketDescriptor{Stride: uint8(HashSize) + uint8(vs), OffsetWidth: uint8(vs)}}
	b.BucketHeader.headerSize = headerSize
	verifAssert(b.BucketHeader.readFrom(f, 0) == nil, "C04.search: bucket header unreadable")
	verifAssert(b.NumEntries == uint32(n) && b.HashLen == HashSize && b.HashDomain == 7, "C04.search: bucket header round trip")
	b.Entries = io.NewSectionReader(f, int64(b.FileOffset), int64(b.NumEntries)*int64(b.Stride))

	x := uint64(verifU32("x"))
	verifAssume(x < 1<<24)
	got, err := searchEytzinger(0, int(b.NumEntries), x, b.loadEntry)
	// oracle, branch-free
	var member uint64
	for i := range h {
		member |= verifIteU64(x == h[i], 1, 0)
	}
	if err != nil {
		verifAssert(errors.Is(err, ErrNotFound), "C04.search: lookup failed with an error other than ErrNotFound")
		verifAssert(member == 0, "C04.search: stored hash not found (entry lost)")
		verifReach("notfound")
	} else {
		verifAssert(member == 1, "C04.search: absent hash reported as found")
		verifAssert(len(got) == vs, "C04.search: value length differs from value size")
		var bad uint64
		for i := range h {
			bad |= verifIteU64(x == h[i], 1, 0) &^ verifIteU64(bytes.Equal(got, vals[i]), 1, 0)
		}
		verifAssert(bad == 0, "C04.search: lookup returned a value other than the one inserted with the hash")
		verifReach("found")
	}
	verifReach("end")
}
