//go:build verif

package compactindexsized

import (
	"bytes"
	"errors"
	"io"
	"os"
)

// verifC04WriteBucket lays out `entries` (in the given order) exactly as hashBucket +
// sealBucket do after hashing: sortWithCompare with hashBucket's comparator, marshalEntry of
// every entry through a bufio-free direct write, bucket header through writeTo.
func verifC04WriteBucket(path string, entries []Entry, valueSize int, headerSize int64) *os.File {
	f, err := os.OpenFile(path, os.O_CREATE|os.O_RDWR|os.O_TRUNC, 0o666)
	verifAssert(err == nil, "C04.search: cannot create file")
	sortWithCompare(entries, func(i, j int) bool {
		return entries[i].Hash < entries[j].Hash
	})
	desc := BucketDescriptor{
		BucketHeader: BucketHeader{
			HashDomain: 7,
			NumEntries: uint32(len(entries)),
			HashLen:    HashSize,
			FileOffset: uint64(headerSize + bucketHdrLen),
		},
		Stride:      uint8(HashSize) + uint8(valueSize),
		OffsetWidth: uint8(valueSize),
	}
	desc.BucketHeader.headerSize = headerSize
	pad := make([]byte, headerSize+bucketHdrLen)
	_, err = f.Write(pad)
	verifAssert(err == nil, "C04.search: write failed")
	entryBuf := make([]byte, desc.Stride)
	for _, e := range entries {
		desc.marshalEntry(entryBuf, e)
		_, err = f.Write(entryBuf)
		verifAssert(err == nil, "C04.search: write failed")
	}
	verifAssert(desc.BucketHeader.writeTo(f, 0) == nil, "C04.search: bucket header write failed")
	return f
}

// C04.search — the per-bucket lemma: for n entries with arbitrary pairwise distinct 24-bit
// hashes, inserted in several orders, with arbitrary values, the layout produced by the real
// sortWithCompare/eytzinger + marshalEntry and read back through the real
// BucketHeader.readFrom + Bucket.loadEntry/unmarshalEntry + searchEytzinger over an
// io.SectionReader satisfies: a lookup of ANY 24-bit hash x returns the value stored with x if x
// is stored and ErrNotFound otherwise; the bytes on disk do not depend on the insertion order.
func VerifC04Search() {
	nmin, nmax := verifParam("nmin", 1), verifParam("nmax", 8)
	n := nmin + verifChoice("n", nmax-nmin+1)
	sizes := []int{1, 8, 9, 36, 48, 252}
	if s := verifParam("vsize", 0); s != 0 {
		sizes = []int{s}
	}
	vs := sizes[verifChoice("valueSize", len(sizes))]
	perm := verifC04Perm(n, verifChoice("order", verifC04NumPerms(n, verifParam("orders", 3))))

	// sorted symbolic hashes h[0] < h[1] < ... < h[n-1] < 2^24 (every set of n distinct hashes)
	h := make([]uint64, n)
	vals := make([][]byte, n)
	for i := range h {
		h[i] = uint64(verifU32("hash"))
		verifAssume(h[i] < 1<<24)
		for j := 0; j < i; j++ { // pairwise (redundant, but spares the solver the transitivity chains)
			verifAssume(h[j] < h[i])
		}
		vals[i] = verifBytes("value", vs)
	}
	mk := func(order []int) []Entry {
		es := make([]Entry, n)
		for k, i := range order {
			es[k] = Entry{Hash: h[i], Value: vals[i]}
		}
		return es
	}
	const headerSize = 29
	path := verifTempPath("bucket.idx")
	f := verifC04WriteBucket(path, mk(perm), vs, headerSize)
	img := verifMemFileBytes(path)
	verifAssert(len(img) == headerSize+bucketHdrLen+n*(3+vs), "C04.search: file size is not header + n*stride")

	// order independence: the identity order gives the same bytes
	id := make([]int, n)
	for i := range id {
		id[i] = i
	}
	path2 := verifTempPath("bucket2.idx")
	verifC04WriteBucket(path2, mk(id), vs, headerSize)
	verifAssert(bytes.Equal(img, verifMemFileBytes(path2)), "C04.search: bucket bytes depend on the insertion order")

	// reader side
	b := &Bucket{BucketDescriptor: BucketDescriptor{Stride: uint8(HashSize) + uint8(vs), OffsetWidth: uint8(vs)}}
	b.BucketHeader.headerSize = headerSize
	verifAssert(b.BucketHeader.readFrom(f, 0) == nil, "C04.search: bucket header unreadable")
	verifAssert(b.NumEntries == uint32(n) && b.HashLen == HashSize && b.HashDomain == 7, "C04.search: bucket header round trip")
	b.Entries = io.NewSectionReader(f, int64(b.FileOffset), int64(b.NumEntries)*int64(b.Stride))

	x := uint64(verifU32("x"))
	verifAssume(x < 1<<24)
	got, err := searchEytzinger(0, int(b.NumEntries), x, b.loadEntry)
	// oracle, branch-free
	var member uint64
	for i := range h {
		member |= verifIteU64(x == h[i], 1, 0)
	}
	if err != nil {
		verifAssert(errors.Is(err, ErrNotFound), "C04.search: lookup failed with an error other than ErrNotFound")
		verifAssert(member == 0, "C04.search: stored hash not found (entry lost)")
		verifReach("notfound")
	} else {
		verifAssert(member == 1, "C04.search: absent hash reported as found")
		verifAssert(len(got) == vs, "C04.search: value length differs from value size")
		var bad uint64
		for i := range h {
			bad |= verifIteU64(x == h[i], 1, 0) &^ verifIteU64(bytes.Equal(got, vals[i]), 1, 0)
		}
		verifAssert(bad == 0, "C04.search: lookup returned a value other than the one inserted with the hash")
		verifReach("found")
	}
	verifReach("end")
}

// verifC04DeepHash is the i-th smallest of n concrete, strictly increasing 24-bit hashes that
// include both ends of the range.
func verifC04DeepHash(i, n int) uint64 {
	if i == 0 {
		return 0
	}
	if i == n-1 {
		return 0xffffff
	}
	step := uint64(1<<24) / uint64(n)
	return uint64(i)*step + (uint64(i)*7919)%step
}

func verifC04DeepValue(i int) []byte {
	v := make([]byte, 8)
	x := uint64(i+1) * 0x9e3779b97f4a7c15
	for k := range v {
		v[k] = byte(x >> (8 * k))
	}
	return v
}

// C04.search.deep — the per-bucket lemma at bucket sizes beyond what the fully symbolic
// C04.search reaches, up to the real target bucket size (10 000) and the perfect-tree
// boundaries 2^k-1, 2^k, 2^k+1: n concrete, strictly increasing hashes (search and layout are
// comparison based, so they are representative of every hash set of that size), inserted in a
// pseudo-random order (n <= 130) or ascending (larger n: the sort model is quadratic otherwise),
// laid out by the real sortWithCompare/eytzinger + marshalEntry and read back through
// readFrom + loadEntry/unmarshalEntry + searchEytzinger. The looked-up hash x is symbolic:
// for n <= wide it ranges over ALL 24-bit values (2n+1 paths: every stored hash and every gap),
// for larger n over a window of 2 stored hashes around each of 10 positions (first, last,
// middle, tree-level boundaries, pseudo-random). Oracle as in C04.search.
func VerifC04SearchDeep() {
	var ns []int
	switch verifParam("set", 0) {
	case 0: // quick
		ns = []int{32, 33, 64}
	case 1: // every n in 21..56 and the next tree-level boundaries
		for n := 21; n <= 56; n++ {
			ns = append(ns, n)
		}
		ns = append(ns, 63, 64, 65, 100, 127, 128, 129)
	case 2:
		ns = []int{255, 256, 257, 511, 512, 513, 1000, 2047, 2048, 2049, 4095, 4096, 4097}
	case 3:
		ns = []int{9999, 10000, 10001, 16383, 16384, 16385}
	}
	n := ns[verifChoice("n", len(ns))]
	wide := verifParam("wide", 130)
	const vs = 8
	h := make([]uint64, n)
	vals := make([][]byte, n)
	for i := range h {
		h[i] = verifC04DeepHash(i, n)
		if n <= 130 {
			vals[i] = verifBytes("value", vs)
		} else {
			vals[i] = verifC04DeepValue(i)
		}
	}
	entries := make([]Entry, n)
	for k := range entries {
		i := k
		if n <= 130 {
			i = (k*37 + 11) % n // a permutation when gcd(37, n) == 1
			if n%37 == 0 {
				i = n - 1 - k
			}
		}
		entries[k] = Entry{Hash: h[i], Value: vals[i]}
	}
	const headerSize = 29
	path := verifTempPath("deep.idx")
	f := verifC04WriteBucket(path, entries, vs, headerSize)
	b := &Bucket{BucketDescriptor: BucketDescriptor{Stride: uint8(HashSize) + vs, OffsetWidth: vs}}
	b.BucketHeader.headerSize = headerSize
	verifAssert(b.BucketHeader.readFrom(f, 0) == nil, "C04.search.deep: bucket header unreadable")
	verifAssert(b.NumEntries == uint32(n), "C04.search.deep: entry count")
	b.Entries = io.NewSectionReader(f, int64(b.FileOffset), int64(b.NumEntries)*int64(b.Stride))

	x := uint64(verifU32("x"))
	verifAssume(x < 1<<24)
	lo, hi := 0, n-1
	if n > wide {
		pos := []int{0, 1, n / 4, n/2 - 1, n / 2, 3 * n / 4, n - 2, n - 1, (n * 7) / 19, (n * 13) / 17}
		c := pos[verifChoice("window", len(pos))]
		lo, hi = c-1, c+1
		if lo < 0 {
			lo = 0
		}
		if hi > n-1 {
			hi = n - 1
		}
		verifAssume(h[lo] <= x && x <= h[hi])
	}
	got, err := searchEytzinger(0, int(b.NumEntries), x, b.loadEntry)
	// oracle over the candidates in [lo, hi] (x cannot equal a hash outside the window)
	var member, bad uint64
	for i := lo; i <= hi; i++ {
		eq := verifIteU64(x == h[i], 1, 0)
		member |= eq
		if err == nil {
			bad |= eq &^ verifIteU64(len(got) == vs && bytes.Equal(got, vals[i]), 1, 0)
		}
	}
	if err != nil {
		verifAssert(errors.Is(err, ErrNotFound), "C04.search.deep: lookup failed with an error other than ErrNotFound")
		verifAssert(member == 0, "C04.search.deep: stored hash not found (entry lost)")
		verifReach("notfound")
	} else {
		verifAssert(member == 1, "C04.search.deep: absent hash reported as found")
		verifAssert(bad == 0, "C04.search.deep: lookup returned a value other than the one inserted with the hash")
		verifReach("found")
	}
	verifReach("end")
}
