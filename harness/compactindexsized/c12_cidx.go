//go:build verif

package compactindexsized

import (
	"bytes"
	"encoding/binary"
)

// C12 — compactindexsized: opening and querying an index made of arbitrary bytes returns a
// value or an error; no panic, bounded loops, no allocation out of proportion to the file.
//
// The hash of the looked-up key is cut (renamed EntryHash64 -> arbitrary 64-bit value): every
// hash value is explored, which covers every key.

var verifC12Hash uint64

// model of EntryHash64 (the real xxhash-based function is renamed to verifOrig_EntryHash64)
func EntryHash64(prefix uint32, key []byte) uint64 { return verifC12Hash }

// ---------------------------------------------------------------------------------------------
// C12.cidx.lookup / C12.cidx.load — a file with a well-formed 26-byte header (no metadata)
// whose value size is one of the structure-aware candidates, one bucket header and E bytes of
// entries.
// Symbolic: NumBuckets, the bucket number asked for, the bucket header's hash domain, entry
// count, hash length and padding byte, every entry byte, the key hash.
// Structure-aware candidates: value size, the bucket's file offset (valid, off by one, 0, end
// of file +-1, 2^47, 2^48-1).
func verifC12CidxBucket(mode int) (*Bucket, uint64, int) {
	limit := verifParam("alloc", 1<<20)
	verifAllocLimit(int64(limit))
	vsCands := []uint64{1, 36, 253, 256, 2, 252, 255, 1<<32 + 5}
	vs := vsCands[verifChoice("valuesize", verifParam("vsizes", len(vsCands)))]
	stride := uint8(3 + uint8(vs))
	E := verifParam("entries", 3) * int(stride)
	if uint8(vs) >= 253 {
		E = 8
	}
	hdr := make([]byte, 26)
	copy(hdr, Magic[:])
	binary.LittleEndian.PutUint32(hdr[8:12], 14)
	binary.LittleEndian.PutUint64(hdr[12:20], vs)
	nb := verifU32("numBuckets")
	binary.LittleEndian.PutUint32(hdr[20:24], nb)
	hdr[24] = Version
	hdr[25] = 0
	total := 26 + bucketHdrLen + E
	offCands := []uint64{26 + bucketHdrLen, uint64(total + 1), 0, 1<<48 - 1, 26 + bucketHdrLen + 1, uint64(total - 1), uint64(total), 1 << 47}
	bh := BucketHeader{
		HashDomain: verifU32("hashDomain"),
		NumEntries: verifU32("numEntries"),
		HashLen:    verifU8("hashLen"),
		FileOffset: offCands[verifChoice("fileOffset", verifParam("offsets", len(offCands)))],
	}
	var hb [bucketHdrLen]byte
	bh.Store(&hb)
	hb[9] = verifU8("pad")
	data := append(hdr, hb[:]...)
	data = append(data, verifBytes("entries", E)...)

	db, err := Open(bytes.NewReader(data))
	if err != nil {
		// sanity of the harness itself: a header the builder can produce must open
		verifAssert(nb == 0 || vs > 252, "C12.cidx: a well-formed header was rejected")
		verifReach("open-rejected")
		verifReach("end")
		return nil, vs, limit
	}
	db.Prefetch(mode == 1)
	if mode == 1 {
		// the prefetch buffer length is concretised: keep the entry count to few values
		verifAssume(bh.NumEntries <= 2 || bh.NumEntries >= 3000)
	}
	if mode == 2 {
		// the capacity of the entry slice is concretised
		verifAssume(bh.NumEntries <= 3 || bh.NumEntries > uint32(limit/32))
		// Load decodes out of a large batch buffer: every hash length up to 254 stays inside
		// its capacity and is concretised
		verifAssume(bh.HashLen <= 4 || bh.HashLen >= 254)
	}

	// known defects (see /verif/proposed-fixes/C12-cidx-bucket-fields.md): the stride is
	// computed in uint8 (value size >= 253 wraps) and the bucket header's hash length is
	// never checked against the stride.
	verifKnownFinding("C12-cidx-stride-wrap", uint8(vs) >= 253)

	i := verifU64("bucket")
	// bucket 0 has the header built above; a bucket number whose header would lie entirely
	// inside the entry bytes is the same experiment with a fully symbolic header and is
	// excluded (bound) unless the number is out of range
	verifAssume(i == 0 || i > uint64(E/bucketHdrLen) || i >= uint64(nb))
	b, err := db.GetBucket(uint(i))
	if err != nil {
		verifAssert(b == nil, "C12.cidx: GetBucket returned both a bucket and an error")
		verifReach("bucket-error")
		verifReach("end")
		return nil, vs, limit
	}
	verifAssert(b != nil && b.Entries != nil, "C12.cidx: GetBucket returned nil without an error")
	verifAssert(uint32(i) < nb && i < 1<<32, "C12.cidx: GetBucket accepted a bucket number >= NumBuckets")
	verifAssert(i == 0 && b.NumEntries == bh.NumEntries && b.HashLen == bh.HashLen && b.FileOffset == bh.FileOffset, "C12.cidx: GetBucket did not load the header of the bucket asked for")
	verifKnownFinding("C12-cidx-hashlen", uint16(b.HashLen)+uint16(b.OffsetWidth) > uint16(stride))
	return b, vs, limit
}

func VerifC12CidxLookup() {
	mode := verifChoice("prefetch", 2)
	b, vs, _ := verifC12CidxBucket(mode)
	if b == nil {
		return
	}
	verifC12Hash = verifU64("keyhash")
	val, err := b.Lookup([]byte("k"))
	if err == nil {
		verifAssert(len(val) == int(uint8(vs)), "C12.cidx.lookup: Lookup returned a value of the wrong width")
		verifReach("lookup-hit")
	} else {
		verifAssert(val == nil, "C12.cidx.lookup: Lookup returned both a value and an error")
		verifReach("lookup-error")
	}
	verifReach("end")
}

func VerifC12CidxLoad() {
	b, _, limit := verifC12CidxBucket(2)
	if b == nil {
		return
	}
	big := uint32(limit / 32)
	verifKnownFinding("C12-cidx-load-alloc", b.NumEntries > big && b.NumEntries <= maxEntriesPerBucket)
	batches := []int{0, 1, 2} // 0 = default 512
	es, err := b.Load(batches[verifChoice("batch", verifParam("batches", 3))])
	if err == nil {
		verifAssert(uint32(len(es)) <= b.NumEntries, "C12.cidx.load: Load returned more entries than the bucket declares")
		verifReach("load-ok")
	} else {
		verifReach("load-error")
	}
	verifReach("end")
}
