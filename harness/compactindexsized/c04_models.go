//go:build verif

package compactindexsized

import "os"

// Models shared by the C04 obligations that run the real builder end to end.
//
// Hash cut: xxhash (assembly, and a distribution no solver can reason about) is replaced by an
// uninterpreted function of (prefix, key identity). Harness keys differ in their length or
// their first four bytes, so verifC04KeyID (length, first four bytes, checksum of the rest) is
// injective on the keys used and "uninterpreted function of the id" = "arbitrary hash function
// of the key".

// hashRange bounds the low 24 bits of the modelled entry hash (the collision bitmap is indexed
// with it, which the engine concretises): 0 = unbounded.
var verifC04HashRange uint64

// verifC04HashLow, if set, fixes the low 24 bits of the modelled entry hash of a key (the
// upper 40 bits stay arbitrary, so the `& mask` of the code under test is exercised).
var verifC04HashLow func(prefix uint32, key []byte) (uint64, bool)

// EntryHash64 (model; the real one is renamed verifOrig_EntryHash64): arbitrary 64-bit function
// of (prefix, key); its low 24 bits are restricted to [0, verifC04HashRange).
func EntryHash64(prefix uint32, key []byte) uint64 {
	id := verifC04KeyID(key)
	// prefix (mining nonce, < 512) goes to bits 55..63: no overlap with the 55-bit key id
	verifAssert(prefix < 1<<9, "C04 model: hash prefix (nonce) >= 512")
	v := verifUF64("entryhash", uint64(prefix)<<55^id)
	if verifC04HashLow != nil {
		if low, ok := verifC04HashLow(prefix, key); ok {
			return v&^0xffffff | low&0xffffff
		}
	}
	if verifC04HashRange != 0 {
		verifAssume(v&0xffffff < verifC04HashRange)
	}
	return v
}

// verifC04PickBuckets, if non-zero, makes the modelled key hash concrete: the bucket of each
// (concrete) key is chosen by verifChoice among verifC04PickBuckets buckets and the hash is a
// fixed multiple of the bucket count plus that bucket (>= the rejection bound r < NumBuckets, so
// BucketHash performs no re-hash round; the modular arithmetic for arbitrary hashes is
// C04.buckethash's). Used where a symbolic `u % n` for n = 3..7 is too expensive for the solvers.
var verifC04PickBuckets uint64
var verifC04Picked = map[uint64]uint64{}

// verifC04Sum64 replaces xxhash.Sum64 in Header.BucketHash (rewrite): arbitrary function of the key.
func verifC04Sum64(key []byte) uint64 {
	id := verifC04KeyID(key)
	if n := verifC04PickBuckets; n != 0 {
		u, ok := verifC04Picked[id]
		if !ok {
			u = n*(1000003+id%1009) + uint64(verifChoice("bucket", int(n)))
			verifC04Picked[id] = u
		}
		return u
	}
	return verifUF64("sum64", id)
}

// fallocate (model; linux syscall renamed away): the portable implementation of the repo.
func fallocate(f *os.File, offset int64, size int64) error {
	return fake_fallocate(f, offset, size)
}

// ---------------------------------------------------------------------------
// Helpers shared by the C04 harnesses that do NOT touch any declaration of the package under
// test (so a refactoring of a private helper only affects the lemma about that helper).

// verifC04Perm returns the which-th insertion order of n elements:
// 0 identity, 1 reverse, 2 rotate by n/2, 3 odd positions first then even, 4 an LCG shuffle.
// For n <= 3 `which` enumerates all n! orders.
func verifC04Perm(n, which int) []int {
	p := make([]int, n)
	for i := range p {
		p[i] = i
	}
	if n <= 3 {
		all := [][]int{{0, 1, 2}, {0, 2, 1}, {1, 0, 2}, {1, 2, 0}, {2, 0, 1}, {2, 1, 0}}
		if n == 3 {
			return all[which%6]
		}
		if n == 2 && which%2 == 1 {
			return []int{1, 0}
		}
		return p
	}
	switch which {
	case 1:
		for i := range p {
			p[i] = n - 1 - i
		}
	case 2:
		for i := range p {
			p[i] = (i + n/2) % n
		}
	case 3:
		k := 0
		for i := 1; i < n; i += 2 {
			p[k] = i
			k++
		}
		for i := 0; i < n; i += 2 {
			p[k] = i
			k++
		}
	case 4:
		s := uint32(12345 + n)
		for i := n - 1; i > 0; i-- {
			s = s*1103515245 + 12345
			j := int((s >> 8) % uint32(i+1))
			p[i], p[j] = p[j], p[i]
		}
	}
	return p
}

func verifC04NumPerms(n, want int) int {
	switch {
	case n <= 1:
		return 1
	case n == 2:
		return 2
	case n == 3:
		return 6
	}
	return want
}

func verifC04Key(i int, long int) []byte {
	// key i: length i+1 (or `long` for key 0 when long >= 0), first byte i+1, markers in the middle and at the end of keys longer than 4 bytes, rest zero
	n := i + 1
	if i == 0 && long >= 0 {
		n = long
	}
	k := make([]byte, n)
	if n > 0 {
		k[0] = byte(i + 1)
	}
	if n > 4 {
		k[n-1] = 0xa5 // tail marker (enters the id through the checksum)
		k[n/2] = 0x5a
	}
	return k
}


// verifC04KeyID identifies a harness key in 55 bits: its length (bits 32..49, keys up to 2^18-1
// bytes), its first four bytes (bits 0..31) and a 5-bit position-weighted checksum of its
// further marked regions (bits 50..54),
// so that a key that reaches the hash function truncated, padded or with a corrupted tail gets
// another id. Harness keys differ in length or in their first four bytes, so the id is
// injective on them.
func verifC04KeyID(key []byte) uint64 {
	n := len(key)
	id := uint64(n) << 32
	for i := 0; i < 4 && i < n; i++ {
		id |= uint64(key[i]) << (8 * i)
	}
	if n <= 4 {
		return id
	}
	// checksum over bytes 4..67, the middle byte and the last 64 bytes (harness keys are zero elsewhere)
	var sum uint64
	for i := 4; i < n && i < 68; i++ {
		sum += uint64(i+1) * uint64(key[i])
	}
	if n/2 >= 68 {
		sum += uint64(n/2+1) * uint64(key[n/2])
	}
	for i := n - 64; i < n; i++ {
		if i >= 68 && i != n/2 {
			sum += uint64(i+1) * uint64(key[i])
		}
	}
	return id | (sum%31+1)<<50
}

func verifC04B2U(b bool) uint64 {
	if b {
		return 1
	}
	return 0
}

