//go:build verif

package compactindexsized

import "os"

// Models shared by the C04 obligations that run the real builder end to end.
//
// Hash cut: xxhash (assembly, and a distribution no solver can reason about) is replaced by an
// uninterpreted function of (prefix, key identity). Harness keys differ only in their length
// and their first four bytes (all other bytes are zero), so verifC04KeyID is injective on the
// keys used and "uninterpreted function of the id" = "arbitrary hash function of the key".

func verifC04KeyID(key []byte) uint64 {
	id := uint64(len(key)) << 32
	for i := 0; i < 4 && i < len(key); i++ {
		id |= uint64(key[i]) << (8 * i)
	}
	return id
}

// hashRange bounds the low 24 bits of the modelled entry hash (the collision bitmap is indexed
// with it, which the engine concretises): 0 = unbounded.
var verifC04HashRange uint64

// verifC04HashLow, if set, fixes the low 24 bits of the modelled entry hash of a key (the
// upper 40 bits stay arbitrary, so the `& mask` of the code under test is exercised).
var verifC04HashLow func(prefix uint32, key []byte) (uint64, bool)

// EntryHash64 (model; the real one is renamed verifOrig_EntryHash64): arbitrary 64-bit function
// of (prefix, key); its low 24 bits are restricted to [0, verifC04HashRange).
func EntryHash64(prefix uint32, key []byte) uint64 {
	id := verifC04KeyID(key)
	// prefix and key id do not overlap for key lengths < 2^16 (id < 2^48) and prefix < 2^16
	v := verifUF64("entryhash", uint64(prefix)<<48^id)
	if verifC04HashLow != nil {
		if low, ok := verifC04HashLow(prefix, key); ok {
			return v&^0xffffff | low&0xffffff
		}
	}
	if verifC04HashRange != 0 {
		verifAssume(v&0xffffff < verifC04HashRange)
	}
	return v
}

// verifC04Sum64 replaces xxhash.Sum64 in Header.BucketHash (rewrite): arbitrary function of the key.
func verifC04Sum64(key []byte) uint64 {
	return verifUF64("sum64", verifC04KeyID(key))
}

// fallocate (model; linux syscall renamed away): the portable implementation of the repo.
func fallocate(f *os.File, offset int64, size int64) error {
	return fake_fallocate(f, offset, size)
}
