//go:build verif

package accum

// C15 — block-by-block CAR traversal (ObjectAccumulator).
//
// The real NewObjectAccumulator / Run / startFlusher (goroutine) / sendToFlusher / flush /
// getFlushBuffer / putFlushBuffer / flushBuffer.Reset / KindSlice.Has run over the real
// carreader.CarReader (NextNodeBytes -> ReadNodeInfoWithData -> ReadSectionLength,
// cid.CidFromReader, bufio.Reader) reading an in-memory CAR image built by the harness:
//
//	header (H opaque bytes, already consumed as carreader.New leaves the stream) ‖ section_0 ‖ … ‖ section_{k-1}
//	section_i = uvarint(len(cid_i)+len(data_i)) ‖ cid_i ‖ data_i,   data_i[1] = kind byte (symbolic)
//
// The callback is a recorder that copies what it is handed. After Run returns the harness checks the
// record against the image, branch-free over the symbolic kind bytes.

import (
	"bufio"
	"bytes"
	"context"
	"encoding/binary"

	"github.com/ipfs/go-cid"
	"github.com/rpcpool/yellowstone-faithful/carreader"
	"github.com/rpcpool/yellowstone-faithful/iplddecoders"
)

// set by the harness; referenced from overlay rewrites of accum/block.go
var (
	verifC15QueueCap  = 1000
	verifC15ObjectCap = 5000
)

// Hooks set by c15_open.go (only injected into the obligations that open the CAR through the real
// carreader.New): the header of the image as it sits in the file, and the opener.
var (
	c15Open   func(img []byte) *carreader.CarReader
	c15Header func(nroots int) []byte
)

// c15FlushKind is the kind the accumulator under test flushes on ("block" in the oracle's wording);
// KindBlock for every caller in the repository, varied by C15.flushkind.
var c15FlushKind = iplddecoders.KindBlock

func c15Cid(seed byte) cid.Cid {
	b := []byte{0x01, 0x71, 0x12, 0x20}
	for i := 0; i < 32; i++ {
		b = append(b, seed*13+byte(i)*7+1)
	}
	_, c, err := cid.CidFromBytes(b)
	if err != nil {
		panic(err)
	}
	return c
}

type c15Section struct {
	cid  cid.Cid
	data []byte
	off  uint64 // true offset of the section in the image
	len  uint64 // true length of the section (prefix + cid + data)
}

type c15Group struct {
	hasParent bool
	parent    ObjectWithMetadata
	children  []ObjectWithMetadata
}

// c15DataLens: payload lengths per section index. 2 is the shortest payload that has a kind byte;
// 93 makes cid+data = 129 > 127, i.e. a two-byte length prefix.
// Set 2 (C15.big): 16349+36 = 16385 needs a three-byte prefix and, like 4100, is larger than the 4096-byte
// bufio buffer the harness gives the reader (io.ReadFull has to loop over several fills).
var c15DataLens = [][]int{
	{2, 93, 5, 3, 92, 2},
	{91, 2, 2, 94, 3, 7},
	{16349, 2, 4100, 3, 2, 2},
}

// c15Image builds the CAR image and the section table.
func c15Image(H int, k int, lens []int, kinds []byte) ([]byte, []c15Section) {
	return c15ImageHdr(nil, H, k, lens, kinds)
}

// c15ImageHdr: hdr != nil is the real header (prefix + dag-cbor) placed at the start of the image.
func c15ImageHdr(hdr []byte, H int, k int, lens []int, kinds []byte) ([]byte, []c15Section) {
	img := make([]byte, 0, 1024)
	if hdr != nil {
		img = append(img, hdr...)
	} else {
		for i := 0; i < H; i++ {
			img = append(img, byte(0xa0+i))
		}
	}
	secs := make([]c15Section, k)
	for i := 0; i < k; i++ {
		c := c15Cid(byte(i + 1))
		data := make([]byte, lens[i])
		for j := range data {
			data[j] = byte(0x40 + i*16 + j)
		}
		if len(data) > 0 {
			data[0] = 0x86
		}
		if len(data) > 1 {
			data[1] = kinds[i]
		}
		start := len(img)
		cb := c.Bytes()
		img = binary.AppendUvarint(img, uint64(len(cb)+len(data)))
		img = append(img, cb...)
		img = append(img, data...)
		secs[i] = c15Section{cid: c, data: data, off: uint64(start), len: uint64(len(img) - start)}
	}
	return img, secs
}

func c15IgnoreSet(which int) []iplddecoders.Kind {
	switch which {
	case 1: // cmd-x-index-gsfa.go
		return []iplddecoders.Kind{iplddecoders.KindEntry, iplddecoders.KindRewards}
	case 2: // cmd-car-split.go
		return []iplddecoders.Kind{iplddecoders.KindEpoch, iplddecoders.KindSubset}
	case 3: // the flush kind itself listed as ignored: blocks must still be delivered
		return []iplddecoders.Kind{iplddecoders.KindBlock, iplddecoders.KindTransaction}
	}
	return nil
}

func c15Ignored(set []iplddecoders.Kind, k byte) bool {
	r := false
	for _, x := range set {
		r = r || (iplddecoders.Kind(k) == x)
	}
	return r
}

// c15Recorder returns the callback and a pointer to the record. `slow` adds extra scheduling points
// inside the callback (before and after it looks at what it was handed).
func c15Recorder(slow bool) (func(*ObjectWithMetadata, []ObjectWithMetadata) error, *[]c15Group) {
	got := new([]c15Group)
	cb := func(parent *ObjectWithMetadata, children []ObjectWithMetadata) error {
		if slow {
			verifYield()
		}
		g := c15Group{children: make([]ObjectWithMetadata, len(children))}
		copy(g.children, children)
		if parent != nil {
			g.hasParent = true
			g.parent = *parent
		}
		if slow {
			verifYield()
			// what was handed over must not change while the callback is still running
			same := len(children) == len(g.children)
			for i := range g.children {
				same = same && children[i].Offset == g.children[i].Offset && children[i].SectionLength == g.children[i].SectionLength
			}
			if parent != nil {
				same = same && parent.Offset == g.parent.Offset
			}
			verifAssert(same, "C15: the group handed to the callback changed while the callback was running")
		}
		*got = append(*got, g)
		return nil
	}
	return cb, got
}

// c15CheckObject: the delivered object is exactly section i of the image, at its true place.
func c15CheckObject(tag string, img []byte, secs []c15Section, o ObjectWithMetadata, idx int) {
	s := secs[idx]
	verifAssert(o.Offset == s.off, tag+": delivered offset is not the object's true offset in the file")
	verifAssert(o.SectionLength == s.len, tag+": delivered section length is not the object's true section length")
	verifAssert(o.Cid.Equals(s.cid), tag+": delivered CID is not the CID stored at that offset")
	verifAssert(bytes.Equal(o.ObjectData, s.data), tag+": delivered data is not the data stored at that offset")
	// independent cross-check through the bytes of the file: the section found at
	// [Offset, Offset+SectionLength) is the section the splitter would write for this object
	end := o.Offset + o.SectionLength
	if o.Offset <= end && end <= uint64(len(img)) {
		raw, err := o.RawSection()
		verifAssert(err == nil && bytes.Equal(img[o.Offset:end], raw), tag+": file[Offset:Offset+SectionLength] is not the delivered object's section")
	} else {
		verifFail(tag + ": delivered offset/length point outside the file")
	}
}

// c15IndexOf maps a delivered offset back to a section index (offsets in the image are concrete
// and distinct); -1 if no section starts there.
func c15IndexOf(secs []c15Section, off uint64) int {
	for i := range secs {
		if secs[i].off == off {
			return i
		}
	}
	return -1
}

// c15CheckRecord: the complete characterisation of a correct traversal of sections [0,n):
//   - every delivered object is a section of the image with its true offset/length/CID/data,
//   - delivered objects appear in strictly increasing file order over the whole record
//     (children of a group, then its parent, then the next group): no duplicate, no reordering,
//   - section i is delivered  <=>  it is a block or its kind is not in the ignore set,
//   - an object is delivered as parent <=> it is a block; every group except possibly the last has a
//     parent; a parentless group is the last one and is not empty.
//
// Together these pin the grouping down exactly: group boundaries are the blocks.
// Sections [0,skip) are skipped (SetSkip) whatever their kind: never delivered, but counted in the offsets.
// wantFinal=false (traversal ended with an error): no parentless group may be delivered at all and
// the objects after the last block are not delivered.
func c15CheckRecord(tag string, img []byte, secs []c15Section, skip, n int, kinds []byte, ign []iplddecoders.Kind, got []c15Group, wantFinal bool) {
	delivered := make([]bool, len(secs))
	last := -1
	lastBlock := -1
	ok := true // symbolic conjunction of the kind-dependent facts
	for gi, g := range got {
		for _, ch := range g.children {
			idx := c15IndexOf(secs, ch.Offset)
			verifAssert(idx >= skip && idx < n, tag+": a delivered child does not start at a (non-skipped) section boundary of the file")
			verifAssert(idx > last, tag+": objects delivered out of file order or more than once")
			last = idx
			delivered[idx] = true
			c15CheckObject(tag, img, secs, ch, idx)
			ok = ok && iplddecoders.Kind(kinds[idx]) != c15FlushKind && !c15Ignored(ign, kinds[idx])
		}
		if g.hasParent {
			idx := c15IndexOf(secs, g.parent.Offset)
			verifAssert(idx >= skip && idx < n, tag+": a delivered block does not start at a (non-skipped) section boundary of the file")
			verifAssert(idx > last, tag+": blocks delivered out of file order or more than once")
			last = idx
			lastBlock = idx
			delivered[idx] = true
			c15CheckObject(tag, img, secs, g.parent, idx)
			ok = ok && iplddecoders.Kind(kinds[idx]) == c15FlushKind
		} else {
			verifAssert(wantFinal, tag+": a parentless group was delivered although the traversal failed")
			verifAssert(gi == len(got)-1, tag+": a group without a block is not the last group")
			verifAssert(len(g.children) > 0, tag+": an empty final group was delivered")
		}
	}
	verifAssert(ok, tag+": a delivered parent is not a block, or a delivered child is a block or of an ignored kind")
	miss := true
	for i := skip; i < n; i++ {
		if delivered[i] {
			continue
		}
		if !wantFinal && i > lastBlock {
			continue // objects after the last complete block are dropped when the traversal fails
		}
		miss = miss && iplddecoders.Kind(kinds[i]) != c15FlushKind && c15Ignored(ign, kinds[i])
	}
	verifAssert(miss, tag+": an object that is a block or of a non-ignored kind was not delivered")
	if !wantFinal {
		// every block among the first n sections must have been delivered even though Run failed later
		all := true
		for i := skip; i < n; i++ {
			if !delivered[i] {
				all = all && iplddecoders.Kind(kinds[i]) != c15FlushKind
			}
		}
		verifAssert(all, tag+": a block read completely before the failure was not delivered")
	}
}

func c15NewReader(img []byte, H int) *carreader.CarReader {
	br := bufio.NewReader(bytes.NewReader(img))
	if _, err := br.Discard(H); err != nil {
		panic(err)
	}
	return carreader.VerifC15NewCarReader(br, uint64(H))
}

// VerifC15Run — C15.run.* / C15.literal / C15.slow / C15.skip: complete CAR images, every kind
// sequence, every interleaving of the reading goroutine and the flusher goroutine.
func VerifC15Run() {
	const tag = "C15.run"
	verifC15QueueCap = verifParam("queuecap", 1)
	verifC15ObjectCap = verifParam("objcap", 1)
	maxK := verifParam("maxk", 3)
	minK := verifParam("mink", 0)
	k := minK + verifChoice("sections", maxK-minK+1)
	lens := c15DataLens[verifParam("lensbase", 0)+verifChoice("lens", verifParam("lensets", 1))]
	H := 11 + 48*verifChoice("header", verifParam("headers", 1))
	ign := c15IgnoreSet(verifParam("ignorebase", 0) + verifChoice("ignore", verifParam("ignoresets", 1)))
	if ml := verifParam("symignore", 0); ml > 0 {
		// C15.anyset: the ignore set is an arbitrary list of 0..ml kinds (any subset of the seven kinds
		// KindTransaction..KindDataFrame up to that size, in any order, with duplicates), not one of the
		// sets the commands happen to use. Values that are no kind are left out: how an implementation
		// treats them is not part of the property. The kind bytes in the file stay arbitrary (0..255).
		ign = make([]iplddecoders.Kind, verifChoice("ignore_len", ml+1))
		for i := range ign {
			v := verifInt("ignored_kind")
			verifAssume(v >= int(iplddecoders.KindTransaction) && v <= int(iplddecoders.KindDataFrame))
			ign[i] = iplddecoders.Kind(v)
		}
	}
	skip := 0
	if ms := verifParam("maxskip", 0); ms > 0 {
		if ms > k {
			ms = k
		}
		skip = verifChoice("skip", ms+1)
	}
	kinds := verifBytes("kind", k)
	realOpen := verifParam("realopen", 0) == 1 && c15Open != nil
	var hdr []byte
	if realOpen {
		hdr = c15Header(1 + verifChoice("roots", verifParam("maxroots", 1)))
		H = len(hdr)
	}
	img, secs := c15ImageHdr(hdr, H, k, lens, kinds)

	cb, got := c15Recorder(verifParam("slow", 0) == 1)
	c15FlushKind = iplddecoders.KindBlock
	if verifParam("symflush", 0) == 1 {
		// C15.anyset: the flush kind is an arbitrary one of the seven kinds
		fk := verifInt("flush_kind")
		verifAssume(fk >= int(iplddecoders.KindTransaction) && fk <= int(iplddecoders.KindDataFrame))
		c15FlushKind = iplddecoders.Kind(fk)
	}
	if nf := verifParam("flushkinds", 0); nf > 0 {
		// C15.flushkind: the flush kind is a constructor argument, not a constant of the traversal
		c15FlushKind = []iplddecoders.Kind{iplddecoders.KindTransaction, iplddecoders.KindEntry, iplddecoders.KindEpoch, iplddecoders.KindDataFrame}[verifChoice("flushkind", nf)]
	}
	var rd *carreader.CarReader
	if realOpen {
		rd = c15Open(img)
	} else {
		rd = c15NewReader(img, H)
	}
	oa := NewObjectAccumulator(rd, c15FlushKind, cb, ign...)
	if skip > 0 {
		oa.SetSkip(uint64(skip))
	}
	err := oa.Run(context.Background())
	verifAssert(err == nil, tag+": Run failed on a well-formed CAR")
	// Run returns only after every callback has finished: the record must be complete and stable now
	c15CheckRecord(tag, img, secs, skip, k, kinds, ign, *got, true)
	verifReach("end")
}
