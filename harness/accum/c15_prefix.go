//go:build verif

package accum

// C15.prefix — lemma on carreader.ReadSectionLength, the function every delivered offset and section
// length is built from: for an arbitrary (symbolic) byte stream it returns the value of the unsigned
// varint at the head of the stream and *exactly the number of bytes that varint occupies in the file*,
// and leaves the stream positioned right behind it. Run adds `sectionLen + ll` of every section
// (delivered, ignored or skipped) to the running offset, so a prefix width that is wrong for some
// value shifts the offset of every later object.
//
// Oracle: independent reference. Width = bytes really consumed from the reader (difference of the
// reader's buffered byte count, concrete per path); value = sum of the 7-bit groups of exactly those
// bytes (symbolic term). Covers every width 1..4 the reader admits (values up to MaxAllowedSectionSize
// = 32 MiB), non-minimal encodings (0x80 0x00), and the rejection of longer / larger prefixes.

import (
	"bufio"
	"bytes"

	"github.com/ipld/go-car/util"
	"github.com/rpcpool/yellowstone-faithful/carreader"
)

func VerifC15Prefix() {
	const tag = "C15.prefix"
	n := verifParam("bytes", 6)
	sym := verifBytes("stream", n)
	stream := append(append([]byte{}, sym...), 0xd1, 0xd2, 0xd3) // bytes of the section body that follows
	r := bufio.NewReader(bytes.NewReader(stream))
	l, ll, err := carreader.ReadSectionLength(r)
	consumed := len(stream) - r.Buffered() // the whole stream is in the buffer after the first Peek

	// reference decoding of the varint that starts the stream
	width := 0
	for i := 0; i < n; i++ {
		width = i + 1
		if sym[i]&0x80 == 0 {
			break
		}
	}
	terminated := sym[width-1]&0x80 == 0
	var want uint64
	for i := 0; i < width; i++ {
		want |= uint64(sym[i]&0x7f) << (7 * uint(i))
	}
	if err == nil {
		verifAssert(terminated, tag+": a prefix without a terminating byte was accepted")
		verifAssert(l == want, tag+": decoded section length is not the value of the varint in the file")
		verifAssert(ll == uint64(width), tag+": reported prefix width is not the number of bytes the varint occupies in the file")
		verifAssert(consumed == width, tag+": the reader is not positioned right behind the length prefix")
		verifAssert(l <= uint64(util.MaxAllowedSectionSize), tag+": a section length above MaxAllowedSectionSize was accepted")
		next, e2 := r.ReadByte()
		verifAssert(e2 == nil && next == stream[width], tag+": the byte following the prefix is not the next byte of the file")
		verifReach("accepted")
	} else {
		// rejection is legitimate only for an unterminated prefix or a too large value
		verifAssert(!terminated || want > uint64(util.MaxAllowedSectionSize), tag+": a well-formed length prefix within the size limit was rejected")
		verifReach("rejected")
	}
	verifReach("end")
}
