//go:build verif

package accum

import (
	"errors"

	"github.com/rpcpool/yellowstone-faithful/ipld/ipldbindcode"
	"github.com/rpcpool/yellowstone-faithful/iplddecoders"
)

// C14.accum: the CBOR decoders are cut - a table from the (concrete) object bytes to the node.

var (
	c14TxTable    []*ipldbindcode.Transaction
	c14FrameTable []*ipldbindcode.DataFrame
)

const c14Label = "C14.accum"

func c14ResetNodes() { c14TxTable, c14FrameTable = nil, nil }

func c14AddFrame(f *ipldbindcode.DataFrame) int {
	c14FrameTable = append(c14FrameTable, f)
	return len(c14FrameTable) - 1
}

func c14AddTx(t *ipldbindcode.Transaction) int {
	c14TxTable = append(c14TxTable, t)
	return len(c14TxTable) - 1
}

func c14Model_DecodeTransaction(raw []byte) (*ipldbindcode.Transaction, error) {
	if len(raw) != 3 || raw[1] != byte(iplddecoders.KindTransaction) || int(raw[2]) >= len(c14TxTable) {
		return nil, errors.New("c14: not a transaction object")
	}
	t := *c14TxTable[raw[2]]
	return &t, nil
}

func c14Model_DecodeDataFrame(raw []byte) (*ipldbindcode.DataFrame, error) {
	if len(raw) != 3 || raw[1] != byte(iplddecoders.KindDataFrame) || int(raw[2]) >= len(c14FrameTable) {
		return nil, errors.New("c14: not a dataframe object")
	}
	f := *c14FrameTable[raw[2]]
	return &f, nil
}
