//go:build verif

package accum

// C15.tx — what the address indexer is handed: traversal + ObjectsToTransactionsAndMetadata.
//
// The real reader, accumulator and flusher goroutine of C15.run deliver groups to a callback that
// re-states the data flow of the gsfa indexer's callback (cmd-x-index-gsfa.go, a closure inside the
// CLI action that cannot be called from a harness): DecodeBlock(parent) ->
// ObjectsToTransactionsAndMetadata(block, children) -> one Push(Offset, Length, Slot, ...) per
// transaction. The oracle: exactly one push per Transaction object of the file, in file order, with
// the byte offset and section length at which that transaction's section really sits in the CAR image,
// the slot stored in the transaction and the block time of the block that closes its group.
//
// Cuts (model functions below, wired by c15Redirect in engine/symgo/ext_C15.go): the CBOR decoders
// iplddecoders.DecodeTransaction / DecodeBlock are tables from the object's id byte to a decoded
// node with arbitrary (symbolic) slot / block time; bin.UnmarshalBin yields a transaction whose
// single signature carries the id; ParseTransactionStatusMetaContainer accepts everything.
// Metadata is inline (one frame); reassembly of split metadata is decided by C14.accum.

import (
	"context"
	"errors"

	bin "github.com/gagliardetto/binary"
	"github.com/gagliardetto/solana-go"
	"github.com/rpcpool/yellowstone-faithful/ipld/ipldbindcode"
	"github.com/rpcpool/yellowstone-faithful/iplddecoders"
	solanatxmetaparsers "github.com/rpcpool/yellowstone-faithful/solana-tx-meta-parsers"
)

var _ = bin.UnmarshalBin

var (
	c15TxSlots    []uint64 // by section index
	c15BlockTimes []uint64 // by section index
)

func c15Model_DecodeTransaction(raw []byte) (*ipldbindcode.Transaction, error) {
	if len(raw) < 3 || raw[1] != byte(iplddecoders.KindTransaction) || int(raw[2]) >= len(c15TxSlots) {
		return nil, errors.New("c15: not a transaction object")
	}
	id := raw[2]
	t := &ipldbindcode.Transaction{Kind: int(iplddecoders.KindTransaction), Slot: int(c15TxSlots[id])}
	t.Data.Kind = int(iplddecoders.KindDataFrame)
	t.Data.Data = []byte{0x54, id}
	t.Metadata.Kind = int(iplddecoders.KindDataFrame)
	t.Metadata.Data = []byte{0x4d, id}
	return t, nil
}

func c15Model_DecodeBlock(raw []byte) (*ipldbindcode.Block, error) {
	if len(raw) < 3 || raw[1] != byte(iplddecoders.KindBlock) || int(raw[2]) >= len(c15BlockTimes) {
		return nil, errors.New("c15: not a block object")
	}
	b := &ipldbindcode.Block{Kind: int(iplddecoders.KindBlock)}
	b.Meta.Blocktime = int(c15BlockTimes[raw[2]])
	return b, nil
}

func c15Model_UnmarshalBin(v interface{}, b []byte) error {
	tx, ok := v.(*solana.Transaction)
	if !ok || len(b) != 2 || b[0] != 0x54 {
		return errors.New("c15: UnmarshalBin model: unexpected input")
	}
	var sig solana.Signature
	sig[0] = b[1]
	tx.Signatures = []solana.Signature{sig}
	return nil
}

func c15Model_ParseMeta(buf []byte) (*solanatxmetaparsers.TransactionStatusMetaContainer, error) {
	return &solanatxmetaparsers.TransactionStatusMetaContainer{}, nil
}

type c15Push struct {
	offset, length, slot, blocktime uint64
	id                              byte
	hasMeta                         bool
}

func VerifC15Tx() {
	const tag = "C15.tx"
	verifC15QueueCap = verifParam("queuecap", 1)
	verifC15ObjectCap = verifParam("objcap", 1)
	maxK := verifParam("maxk", 3)
	minK := verifParam("mink", 1)
	k := minK + verifChoice("sections", maxK-minK+1)
	lens := []int{3, 93, 5, 4, 92, 3} // every payload has the id byte data[2]
	H := 11
	ign := c15IgnoreSet(1) // as cmd-x-index-gsfa.go: Entry, Rewards
	kindOf := []iplddecoders.Kind{iplddecoders.KindTransaction, iplddecoders.KindBlock, iplddecoders.KindEntry, iplddecoders.KindDataFrame}
	kinds := make([]byte, k)
	c15TxSlots = make([]uint64, k)
	c15BlockTimes = make([]uint64, k)
	for i := range kinds {
		kc := verifChoice("kind", len(kindOf))
		kinds[i] = byte(kindOf[kc])
		if kc == 2 {
			// "any other object": an arbitrary kind byte that is none of Transaction, Block, DataFrame
			// (Entry and Rewards are dropped by the accumulator's ignore set; Subset, Epoch and bytes
			// that are no kind at all reach ObjectsToTransactionsAndMetadata and must be passed over)
			ob := verifU8("other_kind")
			verifAssume(ob != byte(iplddecoders.KindTransaction) && ob != byte(iplddecoders.KindBlock) && ob != byte(iplddecoders.KindDataFrame))
			kinds[i] = ob
		}
		c15TxSlots[i] = verifU64("slot")
		c15BlockTimes[i] = verifU64("blocktime")
		verifAssume(c15TxSlots[i] < 1<<62 && c15BlockTimes[i] < 1<<62) // int <-> uint64 round trip of the decoded fields
	}
	img, secs := c15Image(H, k, lens, kinds)
	for i := range secs { // the id byte the decoder models key on
		img[secs[i].off+secs[i].len-uint64(len(secs[i].data))+2] = byte(i)
		secs[i].data[2] = byte(i)
	}

	var pushed []c15Push
	cb := func(parent *ObjectWithMetadata, children []ObjectWithMetadata) error {
		block := &ipldbindcode.Block{} // the indexer uses block time 0 for the objects after the last block
		if parent != nil {
			b, err := iplddecoders.DecodeBlock(parent.ObjectData)
			if err != nil {
				return err
			}
			block = b
		}
		txs, err := ObjectsToTransactionsAndMetadata(block, children)
		if err != nil {
			return err
		}
		for _, t := range txs {
			pushed = append(pushed, c15Push{t.Offset, t.Length, t.Slot, t.Blocktime, t.Transaction.Signatures[0][0], t.Error == nil && t.Metadata != nil})
		}
		PutTransactionWithSlotSlice(txs)
		return nil
	}
	oa := NewObjectAccumulator(c15NewReader(img, H), iplddecoders.KindBlock, cb, ign...)
	err := oa.Run(context.Background())
	verifAssert(err == nil, tag+": Run failed on a well-formed CAR")

	// expected pushes
	n := 0
	for i := 0; i < k; i++ {
		if iplddecoders.Kind(kinds[i]) != iplddecoders.KindTransaction {
			continue
		}
		bt := uint64(0)
		for j := i + 1; j < k; j++ {
			if iplddecoders.Kind(kinds[j]) == iplddecoders.KindBlock {
				bt = c15BlockTimes[j]
				break
			}
		}
		if n >= len(pushed) {
			verifFail(tag + ": a transaction of the file was not handed to the indexer")
			break
		}
		p := pushed[n]
		n++
		verifAssert(p.id == byte(i), tag+": transactions handed over out of file order, twice, or not at all")
		verifAssert(p.offset == secs[i].off, tag+": offset handed to the indexer is not the transaction's true offset in the file")
		verifAssert(p.length == secs[i].len, tag+": length handed to the indexer is not the transaction's true section length")
		verifAssert(p.slot == c15TxSlots[i], tag+": slot handed to the indexer is not the transaction's slot")
		verifAssert(p.blocktime == bt, tag+": block time is not that of the block closing the transaction's group")
		verifAssert(p.hasMeta, tag+": inline metadata not delivered")
	}
	verifAssert(n == len(pushed), tag+": more transactions handed to the indexer than the file contains")
	verifReach("end")
}
