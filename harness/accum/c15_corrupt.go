//go:build verif

package accum

// C15.corrupt — a CAR with a damaged section in the middle is not traversed past the damage.
//
// Section j of an otherwise well-formed image is damaged in one of the ways the reader can notice:
//   0: its length prefix is a 5-byte varint (value > MaxAllowedSectionSize),
//   1: its CID starts with version byte 2 (neither CIDv0 nor CIDv1),
//   2: its length prefix (10) is smaller than its CID (36 bytes),
//   3: its length prefix is one longer than the section really is and it is the last section of
//      the file (the payload runs into the end of the file).
// Run must return an error, must not deliver a parentless final group (the objects after the last
// complete block are unaccounted for), and every block that lies completely before the damage is
// delivered exactly as in C15.run. Sections after the damage must not be delivered at all.

import (
	"context"

	"github.com/rpcpool/yellowstone-faithful/iplddecoders"
)

func VerifC15Corrupt() {
	const tag = "C15.corrupt"
	verifC15QueueCap = verifParam("queuecap", 1)
	verifC15ObjectCap = verifParam("objcap", 1)
	maxK := verifParam("maxk", 2)
	k := 1 + verifChoice("sections", maxK)
	lens := c15DataLens[0]
	H := 11
	ign := c15IgnoreSet(verifParam("ignorebase", 1))
	kinds := verifBytes("kind", k)
	img, secs := c15Image(H, k, lens, kinds)

	how := verifChoice("damage", 4)
	j := k - 1
	if how != 3 {
		j = verifChoice("damaged_section", k)
	}
	s := secs[j]
	prefix := s.len - uint64(len(s.cid.Bytes())) - uint64(len(s.data))
	switch how {
	case 0:
		tail := append([]byte{}, img[s.off+prefix:]...)
		img = append(append(img[:s.off:s.off], 0xff, 0xff, 0xff, 0xff, 0x0f), tail...)
	case 1:
		img[s.off+prefix] = 0x02
	case 2:
		if prefix != 1 {
			verifAssume(false) // only sections with a one-byte prefix are damaged this way
		}
		img[s.off] = 10
	case 3:
		if prefix != 1 || img[s.off] == 0x7f {
			verifAssume(false)
		}
		img[s.off]++
	}

	cb, got := c15Recorder(false)
	oa := NewObjectAccumulator(c15NewReader(img, H), iplddecoders.KindBlock, cb, ign...)
	err := oa.Run(context.Background())
	verifAssert(err != nil, tag+": Run reports success on a CAR with a damaged section")
	// the record may only refer to the sections before the damaged one (c15CheckRecord maps delivered
	// offsets back to sections [0,j) and fails on anything else)
	c15CheckRecord(tag, img, secs, 0, j, kinds, ign, *got, false)
	verifReach("end")
}
