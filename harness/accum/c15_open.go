//go:build verif

package accum

// C15.open / C15.literal — the reader is opened the way the commands open it: carreader.New over the
// complete CAR image (header included), then HeaderSize() inside Run. Real code: carreader.New
// (bufio.NewReaderSize, alignValueToPageSize), ReadHeader (second bufio.NewReader around the first,
// util.LdRead), the version / roots checks, HeaderSize (carv1.WriteHeader into a bytes.Buffer through
// util.LdWrite, cached size), and everything behind it as in C15.run. No overlay edit of
// carreader/reader.go is needed on this path.
//
// Cut (c15Redirect in engine/symgo/ext_C15.go): the reflection-driven CBOR codec of the header
// (go-ipld-cbor DecodeInto, and the cbor.DumpObject inside carv1.WriteHeader) is a table over the
// canonical dag-cbor headers the harness writes: DecodeInto(hb) yields the header hb encodes and
// WriteHeader re-encodes a header to exactly those bytes. A CAR whose header is not canonically
// encoded (HeaderSize() != length of the header in the file) stays outside the claim.

import (
	"bytes"
	"encoding/binary"
	"errors"
	"io"

	"github.com/ipfs/go-cid"
	carv1 "github.com/ipld/go-car"
	"github.com/ipld/go-car/util"
	"github.com/rpcpool/yellowstone-faithful/carreader"
)

type c15Hdr struct {
	body  []byte // dag-cbor of the header, without the length prefix
	roots []cid.Cid
}

var c15Hdrs []c15Hdr

// c15HeaderBody: canonical dag-cbor of {"roots": [cids...], "version": 1}
// (a2 65"roots" 8n (d8 2a 58 25 00 <36 bytes>)* 67"version" 01; 58 bytes for one root).
func c15HeaderBody(roots []cid.Cid) []byte {
	b := []byte{0xa2, 0x65, 'r', 'o', 'o', 't', 's', 0x80 | byte(len(roots))}
	for _, c := range roots {
		cb := c.Bytes()
		b = append(b, 0xd8, 0x2a, 0x58, byte(len(cb)+1), 0x00)
		b = append(b, cb...)
	}
	b = append(b, 0x67, 'v', 'e', 'r', 's', 'i', 'o', 'n', 0x01)
	return b
}

// c15FullHeader returns the header as it sits in the file (length prefix + body) and registers it
// with the codec table.
func c15FullHeader(nroots int) []byte {
	roots := make([]cid.Cid, nroots)
	for i := range roots {
		roots[i] = c15Cid(byte(0xe0 + i))
	}
	body := c15HeaderBody(roots)
	c15Hdrs = append(c15Hdrs, c15Hdr{body: body, roots: roots})
	return append(binary.AppendUvarint(nil, uint64(len(body))), body...)
}

func c15Model_cborDecodeInto(b []byte, v interface{}) error {
	h, ok := v.(*carv1.CarHeader)
	if !ok {
		return errors.New("c15: DecodeInto model: unexpected target")
	}
	for _, e := range c15Hdrs {
		if bytes.Equal(b, e.body) {
			h.Roots = append([]cid.Cid{}, e.roots...)
			h.Version = 1
			return nil
		}
	}
	return errors.New("c15: DecodeInto model: not a header written by the harness")
}

func c15Model_WriteHeader(h *carv1.CarHeader, w io.Writer) error {
	for _, e := range c15Hdrs {
		same := h.Version == 1 && len(h.Roots) == len(e.roots)
		for i := 0; same && i < len(e.roots); i++ {
			same = h.Roots[i].Equals(e.roots[i])
		}
		if same {
			return util.LdWrite(w, e.body)
		}
	}
	return errors.New("c15: WriteHeader model: not a header read by the harness")
}

func init() {
	c15Open = func(img []byte) *carreader.CarReader {
		rd, err := carreader.New(io.NopCloser(bytes.NewReader(img)))
		if err != nil {
			verifFail("C15.open: carreader.New rejects a well-formed CAR")
			return nil
		}
		return rd
	}
	c15Header = c15FullHeader
}
