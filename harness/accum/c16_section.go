//go:build verif

package accum

import (
	"bufio"
	"bytes"
	"encoding/binary"

	"github.com/filecoin-project/go-leb128"
	"github.com/ipfs/go-cid"
	"github.com/rpcpool/yellowstone-faithful/carreader"
)

// c16Cid builds a CIDv1 (dag-cbor, sha2-256) with an arbitrary digest: 36 bytes.
func c16Cid(seed byte) cid.Cid {
	b := []byte{0x01, 0x71, 0x12, 0x20}
	for i := 0; i < 32; i++ {
		b = append(b, seed+byte(i)*7)
	}
	_, c, err := cid.CidFromBytes(b)
	if err != nil {
		panic(err)
	}
	return c
}

// C16.section (a) — the length prefix the split command writes (leb128.FromUInt64, used by
// RawSection, RawSectionSize and writeNode) is exactly what the CAR reader decodes
// (carreader.ReadSectionLength = binary.ReadUvarint with a byte counter), for every section
// length the reader admits.
func VerifC16SectionLen() {
	x := verifU64("section_len")
	verifAssume(x <= 32<<20) // util.MaxAllowedSectionSize: larger sections are rejected by the reader
	enc := leb128.FromUInt64(x)
	want := binary.AppendUvarint(nil, x)
	verifAssert(bytes.Equal(enc, want), "C16.section: leb128.FromUInt64 differs from the uvarint encoding")
	stream := append(append([]byte{}, enc...), 0x55, 0x66)
	l, ll, err := carreader.ReadSectionLength(bufio.NewReader(bytes.NewReader(stream)))
	if err != nil {
		verifTrace("rsl", err.Error())
	}
	verifAssert(err == nil, "C16.section: ReadSectionLength failed on a prefix written by leb128.FromUInt64")
	verifAssert(l == x, "C16.section: ReadSectionLength decodes a different section length")
	verifAssert(ll == uint64(len(enc)), "C16.section: ReadSectionLength reports a different prefix width")
	verifReach("end")
}

// C16.section (b) — ObjectWithMetadata.RawSection is byte-for-byte what the CAR reader parses
// back (same CID, same data, section length = len(RawSection) = RawSectionSize), for data
// lengths on both sides of the 1→2 and 2→3 byte prefix boundaries.
func VerifC16Section() {
	lens := []int{0, 1, 90, 91, 92, 93}
	if verifParam("big", 0) == 1 {
		lens = []int{16346, 16347, 16348, 16349}
	}
	D := lens[verifChoice("data_len", len(lens))]
	data := make([]byte, D)
	for i := range data {
		data[i] = byte(i*31 + 7)
	}
	// symbolic bytes at both ends (the kind byte data[1] included) and in the middle
	sym := verifBytes("data", 6)
	for j, pos := range []int{0, 1, 2, D / 2, D - 2, D - 1} {
		if pos >= 0 && pos < D {
			data[pos] = sym[j]
		}
	}
	c := c16Cid(0x5a)
	obj := ObjectWithMetadata{Cid: c, ObjectData: data}
	raw, err := obj.RawSection()
	verifAssert(err == nil, "C16.section: RawSection failed")
	verifAssert(obj.RawSectionSize() == len(raw), "C16.section: RawSectionSize differs from len(RawSection)")

	// a second section behind the first one: the reader must stop exactly at the boundary
	obj2 := ObjectWithMetadata{Cid: c16Cid(3), ObjectData: []byte{0x82, 0x01}}
	raw2, _ := obj2.RawSection()
	br := bufio.NewReader(bytes.NewReader(append(append([]byte{}, raw...), raw2...)))

	gotCid, secLen, gotData, err := carreader.ReadNodeInfoWithData(br)
	verifAssert(err == nil, "C16.section: the CAR reader rejects a section written by RawSection")
	verifAssert(secLen == uint64(len(raw)), "C16.section: section length reported by the reader differs from len(RawSection)")
	verifAssert(gotCid.Equals(c), "C16.section: CID read back differs")
	verifAssert(bytes.Equal(gotData, data), "C16.section: data read back differs")
	gotCid2, secLen2, gotData2, err := carreader.ReadNodeInfoWithData(br)
	verifAssert(err == nil && secLen2 == uint64(len(raw2)) && gotCid2.Equals(obj2.Cid) && bytes.Equal(gotData2, obj2.ObjectData),
		"C16.section: the section following a RawSection is not read back intact")
	verifReach("end")
}
