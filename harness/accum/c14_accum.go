//go:build verif

package accum

import (
	"bytes"
	"errors"

	"github.com/gagliardetto/solana-go"
	"github.com/ipfs/go-cid"
	"github.com/rpcpool/yellowstone-faithful/ipld/ipldbindcode"
	"github.com/rpcpool/yellowstone-faithful/iplddecoders"
	solanatxmetaparsers "github.com/rpcpool/yellowstone-faithful/solana-tx-meta-parsers"
)

// C14.accum — ObjectsToTransactionsAndMetadata: the frames of a transaction's metadata arrive as
// separate DataFrame objects *before* the Transaction object of a block's object list; they are
// collected in a map keyed by CID string, handed to tooling.LoadDataFromDataFrames through a
// closure, and the map is emptied after every transaction.
//
// Cuts (model functions below, wired by engine redirects in ext_C14.go): the CBOR decoders
// iplddecoders.DecodeTransaction / DecodeDataFrame are a table from the (concrete) object bytes to
// the decoded node; bin.UnmarshalBin yields a transaction with one signature and records the bytes
// it was given; ParseTransactionStatusMetaContainer records the bytes it was given.

var (
	c14MetaSeen [][]byte // buffers handed to the metadata parser, in call order
	c14TxSeen   [][]byte // buffers handed to the transaction decoder, in call order
)

func c14Model_UnmarshalBin(v interface{}, b []byte) error {
	tx, ok := v.(*solana.Transaction)
	if !ok {
		return errors.New("c14: UnmarshalBin model: unexpected target")
	}
	c14TxSeen = append(c14TxSeen, append([]byte{}, b...))
	var sig solana.Signature
	sig[0] = byte(len(c14TxSeen))
	tx.Signatures = []solana.Signature{sig}
	return nil
}

func c14Model_ParseMeta(buf []byte) (*solanatxmetaparsers.TransactionStatusMetaContainer, error) {
	c14MetaSeen = append(c14MetaSeen, append([]byte{}, buf...))
	return &solanatxmetaparsers.TransactionStatusMetaContainer{}, nil
}

func c14Obj(c cid.Cid, kind iplddecoders.Kind, id int) ObjectWithMetadata {
	return ObjectWithMetadata{Cid: c, Offset: uint64(100 + id), SectionLength: 3, ObjectData: []byte{0x85, byte(kind), byte(id)}}
}

// c14AccumBox — the far side of the quantification box through the accumulator: one transaction
// whose metadata is a large well-formed payload (the frame objects precede the transaction object,
// in link order or reversed), followed by an ordinary single-frame transaction.
//
//	1: 60 frames, fan-out 1 (link depth 59)      2: 60 frames, fan-out 10
//	3: 60 frames linked by the head alone        4: `bytes` (200 KiB) in 60 frames, fan-out 5
func c14AccumBox(which int) {
	n, f := 60, 1
	lens := func(k int) int { return 1 + k%2 }
	switch which {
	case 2:
		f = 10
	case 3:
		f = n
	case 4:
		f = 5
		per := verifParam("bytes", 204800) / n
		lens = func(k int) int { return per }
	}
	reversed := which%2 == 0
	p := c14HubChain(n, f, reversed, 0, lens, which == 2)
	var objects []ObjectWithMetadata
	for k := 1; k < n; k++ {
		objects = append(objects, c14Obj(p.cids[k], iplddecoders.KindDataFrame, c14AddFrame(p.frames[k])))
	}
	if reversed {
		for i, j := 0, len(objects)-1; i < j; i, j = i+1, j-1 {
			objects[i], objects[j] = objects[j], objects[i]
		}
	}
	var txData [][]byte
	for t := 0; t < 2; t++ {
		td := []byte{byte(0xA0 + t), byte(0xB7 - t)}
		txData = append(txData, td)
		tx := &ipldbindcode.Transaction{Kind: int(iplddecoders.KindTransaction), Slot: 7}
		tx.Data = ipldbindcode.DataFrame{Kind: int(iplddecoders.KindDataFrame), Data: ipldbindcode.Buffer(append([]byte{}, td...))}
		if t == 0 {
			tx.Metadata = *p.frames[0]
		} else {
			tx.Metadata = ipldbindcode.DataFrame{Kind: int(iplddecoders.KindDataFrame), Data: ipldbindcode.Buffer([]byte{0x5A})}
		}
		objects = append(objects, c14Obj(c14Cid(100+t), iplddecoders.KindTransaction, c14AddTx(tx)))
	}
	block := &ipldbindcode.Block{Kind: int(iplddecoders.KindBlock), Slot: 7}
	res, err := ObjectsToTransactionsAndMetadata(block, objects)
	verifAssert(err == nil, c14Label+": block with a large well-formed metadata payload rejected")
	verifAssert(len(res) == 2 && len(c14MetaSeen) == 2 && len(c14TxSeen) == 2, c14Label+": number of transactions (large payload)")
	if len(c14MetaSeen) == 2 && len(c14TxSeen) == 2 {
		verifAssert(bytes.Equal(c14MetaSeen[0], p.orig), c14Label+": large metadata payload handed to the parser differs from the original")
		verifAssert(bytes.Equal(c14MetaSeen[1], []byte{0x5A}), c14Label+": metadata of the following transaction differs")
		verifAssert(bytes.Equal(c14TxSeen[0], txData[0]) && bytes.Equal(c14TxSeen[1], txData[1]), c14Label+": transaction bytes differ (large payload)")
	}
	verifReach("box")
	verifReach("end")
}

func VerifC14Accum() {
	c14ResetNodes()
	c14MetaSeen, c14TxSeen = nil, nil
	if box := verifChoice("box", 1+verifParam("box", 4)); box > 0 {
		c14AccumBox(box)
		return
	}
	K := verifParam("txs", 2)
	maxN := verifParam("N", 3)
	hashMode := verifChoice("checksum", 3) // 0 CRC64, 1 legacy FNV-1a, 2 absent
	// legacy FNV-1a records: concrete data (else every VerifyHash asks the solver whether CRC64(x) = FNV-1a(x) has a solution)
	c14Concrete = verifParam("concrete", 0) == 1 || hashMode == 1
	// layout of the object list: 0 = frames right before their transaction (as the CAR writer emits them);
	// 1 = one frame object is missing; 2 = the frames of the second transaction come before the first transaction
	layout := verifChoice("layout", 3)

	var objects []ObjectWithMetadata
	var pls []*c14Payload
	var txData [][]byte
	var frameObjs [][]ObjectWithMetadata
	var txObjs []ObjectWithMetadata
	multi := 0
	splitTx := false
	for t := 0; t < K; t++ {
		n := 1 + verifChoice("frames", maxN)
		p := c14NewPayload(n, 8*t, c14Lens(1+t), c14PermEnds)
		h := 0
		switch hashMode {
		case 0:
			h = int(c14Crc(p.orig))
		case 1:
			h = int(c14Fnv(p.orig))
		}
		if n == 1 && verifChoice("bare", 2) == 1 {
			// single frame without index/total (objects written before frames were introduced)
			p.frames[0].Index = nil
			if hashMode != 2 {
				p.frames[0].Hash = c14pp(h)
			}
		} else {
			p.setMeta(n, hashMode != 2, h)
		}
		pls = append(pls, p)
		var fo []ObjectWithMetadata
		for k := 1; k < n; k++ {
			fo = append(fo, c14Obj(p.cids[k], iplddecoders.KindDataFrame, c14AddFrame(p.frames[k])))
		}
		if n > 1 {
			multi++
		}
		if n > 2 && verifChoice("storeReversed", 2) == 1 {
			for i, j := 0, len(fo)-1; i < j; i, j = i+1, j-1 {
				fo[i], fo[j] = fo[j], fo[i]
			}
		}
		frameObjs = append(frameObjs, fo)
		tx := &ipldbindcode.Transaction{Kind: int(iplddecoders.KindTransaction), Slot: 7, Metadata: *p.frames[0]}
		if t == 0 && layout == 0 && hashMode == 0 && verifParam("splitTx", 1) == 1 && verifChoice("txDataSplit", 2) == 1 {
			// the transaction bytes themselves are split into two frames (same mechanism as metadata)
			splitTx = true
			pd := c14NewPayload(2, 30, c14Lens(1), c14PermEnds)
			hd := 0
			switch hashMode {
			case 0:
				hd = int(c14Crc(pd.orig))
			case 1:
				hd = int(c14Fnv(pd.orig))
			}
			pd.setMeta(2, hashMode != 2, hd)
			fo = append(fo, c14Obj(pd.cids[1], iplddecoders.KindDataFrame, c14AddFrame(pd.frames[1])))
			frameObjs[t] = fo
			tx.Data = *pd.frames[0]
			txData = append(txData, pd.orig)
		} else {
			td := verifBytes("txData", 2)
			if c14Concrete {
				td[0], td[1] = byte(0xA0+t), byte(0xB7-t)
			}
			txData = append(txData, td)
			tx.Data = ipldbindcode.DataFrame{Kind: int(iplddecoders.KindDataFrame), Data: ipldbindcode.Buffer(append([]byte{}, td...))}
			if verifParam("fullTxHead", 0) == 1 {
				// the head frame of the transaction bytes as the current writer emits it: checksum, index 0, total 1
				tx.Data.Hash = c14pp(int(c14Crc(td)))
				tx.Data.Index = c14pp(0)
				tx.Data.Total = c14pp(1)
			}
		}
		txObjs = append(txObjs, c14Obj(c14Cid(60+t), iplddecoders.KindTransaction, c14AddTx(tx)))
	}
	entry := c14Obj(c14Cid(70), iplddecoders.KindEntry, 0)
	expectOK := true
	switch layout {
	case 0:
		for t := 0; t < K; t++ {
			objects = append(objects, frameObjs[t]...)
			objects = append(objects, txObjs[t])
			if t == 0 {
				objects = append(objects, entry) // other kinds in between are skipped
			}
		}
	case 1:
		verifAssume(multi > 0)
		victim := verifChoice("victimTx", K)
		verifAssume(len(frameObjs[victim]) > 0)
		drop := verifChoice("dropFrame", len(frameObjs[victim]))
		for t := 0; t < K; t++ {
			for i, o := range frameObjs[t] {
				if t == victim && i == drop {
					continue
				}
				objects = append(objects, o)
			}
			objects = append(objects, txObjs[t])
		}
		expectOK = false
	case 2:
		verifAssume(K >= 2 && len(frameObjs[1]) > 0)
		objects = append(objects, frameObjs[1]...)
		objects = append(objects, frameObjs[0]...)
		objects = append(objects, txObjs[0], txObjs[1])
	}

	// known finding: a transaction whose *data* payload is split over several frames is rejected
	// by Transaction.GetSolanaTransaction ("transaction data is split into multiple objects")
	verifKnownFinding("C14-accum-txdata-split", splitTx)

	block := &ipldbindcode.Block{Kind: int(iplddecoders.KindBlock), Slot: 7}
	block.Meta.Blocktime = 1700000000
	res, err := ObjectsToTransactionsAndMetadata(block, objects)

	if layout == 0 {
		verifAssert(err == nil, c14Label+": well-formed block rejected")
	}
	if !expectOK {
		verifAssert(err != nil, c14Label+": a metadata frame is missing from the block but the block was accepted")
	}
	if err == nil {
		verifAssert(len(res) == K, c14Label+": number of transactions")
		verifAssert(len(c14TxSeen) == K, c14Label+": number of decoded transactions")
		nonEmpty := 0
		for t := 0; t < K && t < len(res); t++ {
			verifAssert(bytes.Equal(c14TxSeen[t], txData[t]), c14Label+": transaction bytes differ from the stored ones")
			if len(pls[t].orig) == 0 {
				verifAssert(res[t].IsMetaNotFound(), c14Label+": empty metadata not reported as not-found")
				continue
			}
			verifAssert(res[t].Error == nil && res[t].Metadata != nil, c14Label+": metadata not delivered")
			verifAssert(nonEmpty < len(c14MetaSeen) && bytes.Equal(c14MetaSeen[nonEmpty], pls[t].orig), c14Label+": metadata bytes handed to the parser differ from the original payload")
			nonEmpty++
		}
		verifAssert(nonEmpty == len(c14MetaSeen), c14Label+": parser called more often than there are non-empty payloads")
	}
	verifReach("end")
}
