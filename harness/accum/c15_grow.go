//go:build verif

package accum

// C15.grow — a group that has been handed to the flusher goroutine is never touched again by the
// reading goroutine, in particular across the preallocation boundary of the children buffer.
//
// Run preallocates `children` with capacity objectCap (5000) per block; a block with more children
// goes through append's growth path. The part of the property at stake: whatever buffer management
// Run uses (fresh slice, grown slice, reuse), the children of a group that is queued or being
// consumed must stay exactly the non-ignored objects stored before its block, while the reader is
// already filling the following groups ("any relative speed of the reading and the consuming
// goroutine"). C15.run explores every kind sequence but only short files; here the file shape is
// chosen directly so that deeper files stay cheap: G groups with n_1..n_G children each
// (0..maxc, i.e. below, at and above the preallocation objcap), every group closed by a block except
// that the last one may be the trailing (nil, children) group. The oracle is the one of C15.run
// (exact record, true offsets, bytes of the file), plus the happens-before race detector.

import (
	"context"

	"github.com/rpcpool/yellowstone-faithful/iplddecoders"
)

func VerifC15Grow() {
	const tag = "C15.grow"
	verifC15QueueCap = verifParam("queuecap", 2)
	verifC15ObjectCap = verifParam("objcap", 1)
	G := verifParam("groups", 2)
	maxc := verifParam("maxc", 3)
	var kinds []byte
	for g := 0; g < G; g++ {
		n := verifChoice("children", maxc+1)
		for i := 0; i < n; i++ {
			kinds = append(kinds, byte(iplddecoders.KindTransaction))
		}
		if g < G-1 || verifChoice("last_is_block", 2) == 1 {
			kinds = append(kinds, byte(iplddecoders.KindBlock))
		}
	}
	k := len(kinds)
	base := c15DataLens[0]
	lens := make([]int, k)
	for i := range lens {
		lens[i] = base[i%len(base)]
	}
	H := 11
	img, secs := c15Image(H, k, lens, kinds)

	cb, got := c15Recorder(verifParam("slow", 0) == 1)
	oa := NewObjectAccumulator(c15NewReader(img, H), iplddecoders.KindBlock, cb)
	err := oa.Run(context.Background())
	verifAssert(err == nil, tag+": Run failed on a well-formed CAR")
	c15CheckRecord(tag, img, secs, 0, k, kinds, nil, *got, true)
	verifReach("end")
}
