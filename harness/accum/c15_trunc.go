//go:build verif

package accum

// C15.trunc — a CAR image cut inside its last section must not be traversed as if it were complete.
//
// The image of C15.run is cut at one of the structurally different places of the last section
// (inside / right after the length prefix, inside the CID, right after the CID, inside the data,
// one byte short). Run must report an error; everything delivered before must still be exact, and no
// parentless final group may be produced from a file whose end is missing.
//
// C15.stop — a callback that returns accum.ErrStop (the exported "stop" signal): Run must still
// terminate.

import (
	"context"

	"github.com/rpcpool/yellowstone-faithful/iplddecoders"
)

// verifC15KnownEnd closes the region of a known finding (engine intrinsic, see engine/symgo/ext_C15.go).
func verifC15KnownEnd(id string) {}

func VerifC15Trunc() {
	const tag = "C15.trunc"
	verifC15QueueCap = verifParam("queuecap", 1)
	verifC15ObjectCap = verifParam("objcap", 1)
	maxK := verifParam("maxk", 2)
	k := 1 + verifChoice("sections", maxK)
	lens := c15DataLens[verifChoice("lens", verifParam("lensets", 2))]
	H := 11
	ign := c15IgnoreSet(verifParam("ignorebase", 1))
	kinds := verifBytes("kind", k)
	img, secs := c15Image(H, k, lens, kinds)

	last := secs[k-1]
	dataLen := uint64(len(last.data))
	cidLen := uint64(len(last.cid.Bytes()))
	prefix := last.len - cidLen - dataLen // width of the length prefix (1 or 2)
	// cut = number of bytes of the last section that are still present
	cuts := []uint64{
		prefix,              // right after the length prefix (nothing of the CID)
		prefix + 1,          // after the CID version
		prefix + 2,          // after the CID codec
		prefix + 3,          // after the multihash code
		prefix + 4,          // CID prefix complete, digest missing
		prefix + 20,         // inside the digest
		prefix + cidLen,     // right after the CID (nothing of the data)
		prefix + cidLen + 1, // inside the data
		last.len - 1,        // one byte short
	}
	if prefix > 1 {
		cuts = append(cuts, 1) // inside the length prefix
	}
	ci := verifChoice("cut", len(cuts))
	cut := cuts[ci]
	img = img[:last.off+cut]

	// Known finding C15-trunc-clean-eof: when the file ends exactly after a section's length prefix,
	// exactly after one of the four one-byte varints of the CID prefix, or exactly after the CID, the
	// library read that finds nothing reports io.EOF (bare, or inside cid.ErrInvalidCid, which
	// unwraps), and Run takes every error that errors.Is io.EOF for the regular end of the CAR.
	silent := (cut >= prefix && cut <= prefix+4) || cut == prefix+cidLen
	verifKnownFinding("C15-trunc-clean-eof", silent)

	cb, got := c15Recorder(false)
	oa := NewObjectAccumulator(c15NewReader(img, H), iplddecoders.KindBlock, cb, ign...)
	err := oa.Run(context.Background())
	if verifParam("exact", 0) == 1 {
		// diagnostic twin: the finding region is exact (used once to validate the region against the native run)
		verifAssert((err == nil) == silent, tag+": region of C15-trunc-clean-eof is not exact")
		verifReach("end")
		return
	}
	verifAssert(err != nil, tag+": Run reports success on a CAR whose last section is cut off")
	c15CheckRecord(tag, img, secs, 0, k-1, kinds, ign, *got, false)
	verifReach("end")
}

func VerifC15Stop() {
	const tag = "C15.stop"
	verifC15QueueCap = verifParam("queuecap", 1)
	verifC15ObjectCap = verifParam("objcap", 1)
	maxK := verifParam("maxk", 2)
	k := 1 + verifChoice("sections", maxK)
	lens := c15DataLens[0]
	H := 11
	kinds := make([]byte, k)
	for i := range kinds {
		kinds[i] = byte(iplddecoders.KindBlock)
	}
	img, _ := c15Image(H, k, lens, kinds)
	stopAt := verifChoice("stop_at", k) // the callback for this block returns ErrStop
	n := 0
	cb := func(parent *ObjectWithMetadata, children []ObjectWithMetadata) error {
		n++
		if n-1 == stopAt {
			return ErrStop
		}
		return nil
	}
	// Known finding C15-errstop-deadlock: the flusher goroutine returns on ErrStop without
	// flushWg.Done(), so the deferred flushWg.Wait() of Run never returns.
	verifKnownFinding("C15-errstop-deadlock", true)
	oa := NewObjectAccumulator(c15NewReader(img, H), iplddecoders.KindBlock, cb)
	err := oa.Run(context.Background())
	verifC15KnownEnd("C15-errstop-deadlock")
	_ = err // nil or ErrStop: either is acceptable
	verifAssert(n == stopAt+1, tag+": callbacks were made after the callback asked to stop")
	verifReach("end")
}

// C15.cancel — the context handed to Run is cancelled while the traversal is under way (here: by the
// callback for group number cancel_at, i.e. at an arbitrary point of the reader's progress relative
// to the flusher). Run must return; nothing delivered before may be wrong.
func VerifC15Cancel() {
	const tag = "C15.cancel"
	verifC15QueueCap = verifParam("queuecap", 1)
	verifC15ObjectCap = verifParam("objcap", 1)
	maxK := verifParam("maxk", 2)
	k := 1 + verifChoice("sections", maxK)
	lens := c15DataLens[0]
	H := 11
	kinds := make([]byte, k)
	for i := range kinds {
		kinds[i] = byte(iplddecoders.KindBlock)
	}
	img, secs := c15Image(H, k, lens, kinds)
	cancelAt := verifChoice("cancel_at", k)
	ctx, cancel := context.WithCancel(context.Background())
	rec, got := c15Recorder(false)
	n := 0
	cb := func(parent *ObjectWithMetadata, children []ObjectWithMetadata) error {
		n++
		if n-1 == cancelAt {
			cancel()
		}
		return rec(parent, children)
	}
	// Known finding C15-errstop-deadlock (second way in): the flusher goroutine also returns on
	// ctx.Done() while buffers that Run has already counted in flushWg are still queued.
	verifKnownFinding("C15-errstop-deadlock", true)
	oa := NewObjectAccumulator(c15NewReader(img, H), iplddecoders.KindBlock, cb)
	err := oa.Run(ctx)
	verifC15KnownEnd("C15-errstop-deadlock")
	_ = err
	// whatever was delivered is a correct prefix of the traversal
	c15CheckRecord(tag, img, secs, 0, len(*got), kinds, nil, *got, false)
	verifReach("end")
}

// C15.short — a section whose payload is shorter than two bytes has no kind byte. The traversal must
// fail with an error (or skip it), not crash the reading goroutine.
func VerifC15Short() {
	const tag = "C15.short"
	verifC15QueueCap = verifParam("queuecap", 1)
	verifC15ObjectCap = verifParam("objcap", 1)
	maxK := verifParam("maxk", 2)
	k := 1 + verifChoice("sections", maxK)
	lens := append([]int{}, c15DataLens[0]...)
	lens[k-1] = verifChoice("short_len", 2) // payload of the last section: 0 or 1 byte
	H := 11
	ign := c15IgnoreSet(verifParam("ignorebase", 1))
	kinds := verifBytes("kind", k)
	img, secs := c15Image(H, k, lens, kinds)
	// Known finding C15-short-payload-panic: Run indexes data[1] without looking at len(data).
	verifKnownFinding("C15-short-payload-panic", true)
	cb, got := c15Recorder(false)
	oa := NewObjectAccumulator(c15NewReader(img, H), iplddecoders.KindBlock, cb, ign...)
	err := oa.Run(context.Background())
	verifC15KnownEnd("C15-short-payload-panic")
	verifAssert(err != nil, tag+": Run reports success on a CAR with an object that has no kind byte")
	c15CheckRecord(tag, img, secs, 0, k-1, kinds, ign, *got, false)
	verifReach("end")
}
