//go:build verif

package accum

import (
	"bytes"
	"io"

	"github.com/fxamacker/cbor/v2"
	cidlink "github.com/ipld/go-ipld-prime/linking/cid"
	"github.com/rpcpool/yellowstone-faithful/ipld/ipldbindcode"
)

// C14.e2e: the real iplddecoders.DecodeTransaction / DecodeDataFrame (fast decoders:
// (*Transaction).UnmarshalCBOR, (*DataFrame).fromCBORArray, decodeCborLinkListFromAny, go-cid) run
// on every object. Only the byte-level CBOR library is cut: cbor.NewDecoder(...).Decode(&arr)
// delivers the value tree of the node whose (concrete) object bytes it was created over. The tree
// is what the archive writer stores (DAG-CBOR of the tuple representation of ledger.ipldsch), stated
// here independently of the repo's encoder:
//
//	DataFrame   = [6, hash|null, index|null, total|null, bytes, [tag42(0x00 cid)...]]   (trailing next omitted or null when absent)
//	Transaction = [0, DataFrame, DataFrame, slot, index|null]
//
// integers: unsigned -> uint64, negative -> int64 (as fxamacker/cbor decodes into interface{}).

var (
	c14FrameTrees [][]interface{}
	c14TxTrees    [][]interface{}
	c14Reader     io.Reader
)

const c14Label = "C14.e2e"

func c14ResetNodes() { c14FrameTrees, c14TxTrees = nil, nil }

func c14Int(v int) interface{} {
	if v >= 0 {
		return uint64(v)
	}
	return int64(v)
}

func c14OptInt(p **int) interface{} {
	if p == nil || *p == nil {
		return nil
	}
	return c14Int(**p)
}

func c14FrameTree(f *ipldbindcode.DataFrame) []interface{} {
	t := []interface{}{uint64(f.Kind), c14OptInt(f.Hash), c14OptInt(f.Index), c14OptInt(f.Total), append([]byte{}, f.Data...)}
	if f.Next != nil && *f.Next != nil {
		links := []interface{}{}
		for _, l := range **f.Next {
			links = append(links, cbor.Tag{Number: 42, Content: append([]byte{0}, l.(cidlink.Link).Cid.Bytes()...)})
		}
		t = append(t, links)
	} else if verifParam("nullNext", 0) == 1 {
		t = append(t, nil)
	}
	return t
}

func c14AddFrame(f *ipldbindcode.DataFrame) int {
	c14FrameTrees = append(c14FrameTrees, c14FrameTree(f))
	return len(c14FrameTrees) - 1
}

func c14AddTx(x *ipldbindcode.Transaction) int {
	t := []interface{}{uint64(x.Kind), c14FrameTree(&x.Data), c14FrameTree(&x.Metadata), uint64(x.Slot)}
	if len(c14TxTrees)%2 == 0 {
		t = append(t, uint64(len(c14TxTrees))) // position index present / omitted alternately
	}
	c14TxTrees = append(c14TxTrees, t)
	return len(c14TxTrees) - 1
}

func c14Model_cborNewDecoder(r io.Reader) *cbor.Decoder {
	c14Reader = r
	return new(cbor.Decoder)
}

func c14Model_cborDecode(d *cbor.Decoder, v interface{}) error {
	br, ok := c14Reader.(*bytes.Reader)
	if !ok {
		verifFail("C14.e2e: the CBOR decoder was not created over a bytes.Reader")
		return nil
	}
	raw := make([]byte, br.Len())
	br.Read(raw)
	var tree []interface{}
	switch {
	case len(raw) == 3 && raw[1] == 6 && int(raw[2]) < len(c14FrameTrees):
		tree = c14FrameTrees[raw[2]]
	case len(raw) == 3 && raw[1] == 0 && int(raw[2]) < len(c14TxTrees):
		tree = c14TxTrees[raw[2]]
	default:
		verifFail("C14.e2e: the CBOR decoder was handed bytes that are not an object of the block")
		return nil
	}
	if !ipldbindcode.VerifC14SetArray(v, tree) {
		verifFail("C14.e2e: the CBOR decode target is not *_array")
	}
	return nil
}
