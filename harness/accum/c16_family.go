//go:build verif

package accum

import (
	"bytes"
	"context"
	"errors"
	"fmt"
	"io"

	"github.com/filecoin-project/go-leb128"
	"github.com/ipfs/go-cid"
	"github.com/ipld/go-car"
	"github.com/rpcpool/yellowstone-faithful/carreader"
	"github.com/rpcpool/yellowstone-faithful/iplddecoders"
)

// CAR header CBOR codec (refmt, reflection), reached through the engine's redirect table
// (ext_C16.go): {"roots":[tag42(0x00‖cid)],"version":v}, single root.
func c16Model_cborDumpObject(obj interface{}) ([]byte, error) {
	h, ok := obj.(*car.CarHeader)
	if !ok || len(h.Roots) != 1 {
		return nil, errors.New("c16 model: only single-root CAR headers are modelled")
	}
	cb := h.Roots[0].Bytes()
	out := []byte{0xA2, 0x65, 'r', 'o', 'o', 't', 's', 0x81, 0xD8, 0x2A, 0x58, byte(len(cb) + 1), 0x00}
	out = append(out, cb...)
	out = append(out, 0x67, 'v', 'e', 'r', 's', 'i', 'o', 'n', byte(h.Version))
	return out, nil
}

func c16Model_cborDecodeInto(b []byte, v interface{}) error {
	h, ok := v.(*car.CarHeader)
	if !ok || len(b) < 14 || b[0] != 0xA2 || b[7] != 0x81 || b[10] != 0x58 {
		return errors.New("c16 model: only single-root CAR headers are modelled")
	}
	n := int(b[11]) - 1
	_, c, err := cid.CidFromBytes(b[13 : 13+n])
	if err != nil {
		return err
	}
	h.Roots = []cid.Cid{c}
	h.Version = uint64(b[len(b)-1])
	return nil
}

// C16.family — the block-by-block traversal exactly as split-car consumes it: the real
// carreader.New + ObjectAccumulator.Run (reader loop and flusher goroutine, every interleaving)
// with split-car's ignore set, and a consumer that does what split-car's callback does with the
// slices it is given: `family := append(children, *parent)` (which writes into the spare
// capacity of the delivered buffer), then uses the family. While a callback runs, the buffer it
// was given — spare capacity included — belongs to the consumer: the family it assembles must be
// the block's objects followed by the block, unchanged until the callback returns, and a
// consumer writing there must not disturb any family delivered later. Over the whole run: every
// non-ignored object up to the last block is delivered exactly once, in file order, with its
// block.
func VerifC16Family() {
	S := verifParam("sections", 3)
	hb, _ := c16Model_cborDumpObject(&car.CarHeader{Roots: []cid.Cid{c16Cid(0x11)}, Version: 1})
	img := append(leb128.FromUInt64(uint64(len(hb))), hb...)

	kinds := make([]uint8, S)
	cids := make([]cid.Cid, S)
	datas := make([][]byte, S)
	offs := make([]uint64, S)
	lens := make([]uint64, S)
	for j := 0; j < S; j++ {
		data := verifBytes(fmt.Sprintf("obj%d", j), 3+j%2)
		data[0] = 0x86
		kinds[j] = data[1]
		verifAssume(kinds[j] <= 4) // transaction, entry, block, subset (ignored), epoch (ignored)
		if verifParam("kind_classes", 0) == 1 {
			// one representative per class the code distinguishes: child, block, ignored
			verifAssume(kinds[j] != 1 && kinds[j] != 4)
		}
		cids[j], datas[j] = c16Cid(byte(0x20+j)), data
		sec := ObjectWithMetadata{Cid: cids[j], ObjectData: data}
		raw, _ := sec.RawSection()
		offs[j], lens[j] = uint64(len(img)), uint64(len(raw))
		img = append(img, raw...)
	}
	rd, err := carreader.New(io.NopCloser(bytes.NewReader(img)))
	verifAssert(err == nil, "C16.family: carreader.New failed on a well-formed CAR")
	if err != nil {
		return
	}

	// index of a delivered object among the sections, -1 if it is none of them (branch-light:
	// CIDs, offsets and lengths are concrete, payload bytes compared symbolically)
	identify := func(o ObjectWithMetadata) int {
		for j := 0; j < S; j++ {
			if o.Cid.Equals(cids[j]) && o.Offset == offs[j] && o.SectionLength == lens[j] && len(o.ObjectData) == len(datas[j]) {
				verifAssert(bytes.Equal(o.ObjectData, datas[j]), "C16.family: payload of a delivered object differs from the section in the CAR")
				return j
			}
		}
		return -1
	}
	var delivered []int // section indexes in delivery order; a block is preceded by its objects
	var parents []bool
	acc := NewObjectAccumulator(rd, iplddecoders.KindBlock,
		func(parent *ObjectWithMetadata, children []ObjectWithMetadata) error {
			if parent == nil {
				return nil // objects behind the last block: split-car drops them
			}
			family := append(children, *parent) // split-car's idiom (cmd-car-split.go)
			before := make([]int, len(family))
			for i, o := range family {
				before[i] = identify(o)
			}
			verifYield() // the reader goroutine may run while the consumer still uses the family
			for i, o := range family {
				verifAssert(identify(o) == before[i], "C16.family: a family changed while its callback was still running")
				delivered = append(delivered, before[i])
				parents = append(parents, i == len(family)-1)
			}
			return nil
		},
		iplddecoders.KindEpoch, iplddecoders.KindSubset)
	verifAssert(acc.Run(context.Background()) == nil, "C16.family: Run failed on a well-formed CAR")

	// expected: every non-ignored section up to the last block, in file order
	var want []int
	pending := 0
	for j := 0; j < S; j++ {
		if kinds[j] == 3 || kinds[j] == 4 {
			continue
		}
		want = append(want, j)
		pending++
		if kinds[j] == 2 {
			pending = 0
		}
	}
	want = want[:len(want)-pending]
	ok := len(delivered) == len(want)
	for i := 0; ok && i < len(want); i++ {
		ok = delivered[i] == want[i] && parents[i] == (kinds[want[i]] == 2)
	}
	verifAssert(ok, "C16.family: the families handed to a consumer that appends the block to its objects are not the CAR's objects, each once, in order, each block behind its own objects")
	verifReach("end")
}
