package main

// rtTemplate is the harness runtime injected (through the overlay) into every package under
// test as zz_verif_rt.go. Under symgo the verif* functions are intercepted by name and their
// bodies never run; natively (replay, translator validation) they read a replay vector.
const rtTemplate = `//go:build verif

package PKGNAME

import (
	verifjson "encoding/json"
	veriffmt "fmt"
	verifos "os"
	veriffp "path/filepath"
)

type verifVector struct {
	Inputs map[string]uint64            ` + "`json:\"inputs\"`" + `
	UF     map[string]map[string]uint64 ` + "`json:\"uf\"`" + `
	Params map[string]int               ` + "`json:\"params\"`" + `
}

var (
	verifVec    *verifVector
	verifCnt    = map[string]int{}
	verifObsLog []string
)

func verifLoad() {
	if verifVec != nil {
		return
	}
	verifVec = &verifVector{Inputs: map[string]uint64{}, UF: map[string]map[string]uint64{}, Params: map[string]int{}}
	if p := verifos.Getenv("VERIF_REPLAY"); p != "" {
		b, err := verifos.ReadFile(p)
		if err != nil {
			panic(err)
		}
		if err := verifjson.Unmarshal(b, verifVec); err != nil {
			panic(err)
		}
	}
}

func verifReset() { verifCnt = map[string]int{}; verifObsLog = nil }

func verifName(base string) string {
	n := verifCnt[base]
	verifCnt[base] = n + 1
	if n == 0 {
		return base
	}
	return veriffmt.Sprintf("%s#%d", base, n)
}

func verifGet(name string) uint64 { verifLoad(); return verifVec.Inputs[verifName(name)] }

func verifU64(name string) uint64 { return verifGet(name) }
func verifU32(name string) uint32 { return uint32(verifGet(name)) }
func verifU16(name string) uint16 { return uint16(verifGet(name)) }
func verifU8(name string) uint8   { return uint8(verifGet(name)) }
func verifInt(name string) int    { return int(int64(verifGet(name))) }
func verifI64(name string) int64  { return int64(verifGet(name)) }
func verifI32(name string) int32  { return int32(verifGet(name)) }
func verifBool(name string) bool  { return verifGet(name) != 0 }

func verifBytes(name string, n int) []byte {
	verifLoad()
	base := verifName(name)
	out := make([]byte, n)
	for i := range out {
		out[i] = byte(verifVec.Inputs[veriffmt.Sprintf("%s[%d]", base, i)])
	}
	return out
}

func verifChoice(name string, n int) int {
	if n <= 1 {
		return 0
	}
	v := int(verifGet("choice:" + name))
	if v >= n {
		v = 0
	}
	return v
}

type verifAssumeFailed struct{}

func verifAssume(c bool) {
	if !c {
		panic(verifAssumeFailed{})
	}
}

func verifAssert(c bool, label string) {
	if !c {
		panic("VERIF-ASSERT-FAILED: " + label)
	}
}

func verifFail(label string)                 { panic("VERIF-ASSERT-FAILED: " + label) }
func verifReach(label string)                {}
func verifKnownFinding(id string, cond bool) {}

func verifUF8(name string, idx uint64) uint8 {
	verifLoad()
	return uint8(verifVec.UF[name][veriffmt.Sprint(idx)])
}

func verifUF64(name string, x uint64) uint64 {
	verifLoad()
	return verifVec.UF[name][veriffmt.Sprint(x)]
}

func verifParam(name string, def int) int {
	verifLoad()
	if v, ok := verifVec.Params[name]; ok {
		return v
	}
	return def
}

func verifMapOrderNondet(on bool)          {}
func verifAllocLimit(n int64)              {}
func verifSymbolic() bool                  { return false }
func verifObserve(s string)                { verifObsLog = append(verifObsLog, s) }
func verifTrace(tag string, vals ...any)   {}
func verifConcU64(x uint64) uint64         { return x }
func verifConcInt(x int) int               { return x }
func verifYield()                          {}
func verifLeaked() int                     { return 0 }
func verifIteU64(c bool, a, b uint64) uint64 {
	if c {
		return a
	}
	return b
}

var verifTmpDir string

// verifTempPath maps a harness file name to a scratch location (memfs under symgo, a fresh
// temporary directory outside the repository natively).
func verifTempPath(name string) string {
	if verifTmpDir == "" {
		d, err := verifos.MkdirTemp("", "verif-native-")
		if err != nil {
			panic(err)
		}
		verifTmpDir = d
	}
	p := veriffp.Join(verifTmpDir, name)
	verifos.MkdirAll(veriffp.Dir(p), 0o755)
	return p
}

func verifMemFile(name string, content []byte) {
	if err := verifos.WriteFile(name, content, 0o644); err != nil {
		panic(err)
	}
}

func verifMemFileBytes(name string) []byte {
	b, _ := verifos.ReadFile(name)
	return b
}

// verifRunNative runs a harness entry natively and reports whether it ended in a violation.
func verifRunNative(entry func()) (violated bool, msg string) {
	verifReset()
	defer func() {
		if verifTmpDir != "" {
			verifos.RemoveAll(verifTmpDir)
			verifTmpDir = ""
		}
		if r := recover(); r != nil {
			if _, ok := r.(verifAssumeFailed); ok {
				violated, msg = false, "assumption false under this vector"
				return
			}
			violated, msg = true, veriffmt.Sprint(r)
		}
	}()
	entry()
	return false, ""
}
`

const replayTestTemplate = `//go:build verif

package PKGNAME

import (
	"testing"
	tvjson "encoding/json"
	tvos "os"
	tvstr "strings"
)

// TestVerifVectors runs the harness natively on a list of concrete vectors (translator validation).
func TestVerifVectors(t *testing.T) {
	p := tvos.Getenv("VERIF_VECTORS")
	if p == "" {
		t.Skip("no vectors")
	}
	b, err := tvos.ReadFile(p)
	if err != nil {
		t.Fatal(err)
	}
	var vecs []*verifVector
	if err := tvjson.Unmarshal(b, &vecs); err != nil {
		t.Fatal(err)
	}
	for i, v := range vecs {
		if v.Inputs == nil {
			v.Inputs = map[string]uint64{}
		}
		if v.UF == nil {
			v.UF = map[string]map[string]uint64{}
		}
		if v.Params == nil {
			v.Params = map[string]int{}
		}
		verifVec = v
		violated, msg := verifRunNative(ENTRY)
		t.Logf("VERIF-VEC %d violated=%v obs=%q msg=%q", i, violated, tvstr.Join(verifObsLog, "|"), msg)
	}
}

func TestVerifReplay(t *testing.T) {
	violated, msg := verifRunNative(ENTRY)
	if violated {
		t.Fatalf("VERIF-NATIVE-VIOLATION: %s", msg)
	}
	t.Logf("VERIF-NATIVE-OK %s", msg)
}
`
