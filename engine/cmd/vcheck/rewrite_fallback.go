package main

// Fallback for registry "rewrites" whose exact text is no longer present in the tree (the code was
// refactored: a literal became a named constant, a variable was renamed, the statement was
// re-indented or moved ...). The rewrite is reduced to its *core*: the tokens of `old` and `new`
// that remain after stripping the common leading and trailing tokens (extended to the left over a
// selector chain so that `x.f` is never cut after the dot). The core is then matched on the token
// stream of the current file (whitespace and comments do not matter, integer literals compare by
// value):
//
//   - a core of several tokens (typically `pkg.Callee(` -> `verifModel(`) replaces every match;
//   - a core that is a single integer literal replaces the unique literal of that value in the
//     file, preferring literals on a line that mentions an identifier of the old text; when the
//     literal sits in a `const` declaration and the replacement is not a literal, the declaration
//     is turned into a `var` (one spec) so that a harness variable can take its place.
//
// Anything else (no match, ambiguous literal) leaves the rewrite unapplied and the obligation
// inconclusive, exactly as before. A used fallback is reported on stderr ("rewrite-fallback: ...").

import (
	"fmt"
	"go/ast"
	"go/parser"
	"go/scanner"
	"go/token"
	"os"
	"sort"
	"strconv"
	"strings"
)

var rewriteNotes []string

type rtok struct {
	tok token.Token
	lit string // literal text (identifiers, literals) or token string
	off int    // byte offset in the source
	end int
}

func scanTokens(src []byte) []rtok {
	fs := token.NewFileSet()
	f := fs.AddFile("", fs.Base(), len(src))
	var s scanner.Scanner
	s.Init(f, src, func(token.Position, string) {}, 0)
	var out []rtok
	for {
		pos, tok, lit := s.Scan()
		if tok == token.EOF {
			break
		}
		if tok == token.SEMICOLON && lit == "\n" {
			continue // automatically inserted
		}
		text := lit
		if text == "" {
			text = tok.String()
		}
		off := f.Offset(pos)
		out = append(out, rtok{tok, text, off, off + len(text)})
	}
	return out
}

func sameTok(a, b rtok) bool {
	if a.tok != b.tok {
		return false
	}
	if a.tok == token.INT {
		x, e1 := strconv.ParseUint(strings.ReplaceAll(a.lit, "_", ""), 0, 64)
		y, e2 := strconv.ParseUint(strings.ReplaceAll(b.lit, "_", ""), 0, 64)
		if e1 == nil && e2 == nil {
			return x == y
		}
	}
	return a.lit == b.lit
}

// rewriteCore strips the common leading/trailing tokens of old and new.
func rewriteCore(oldS, newS string) (oldCore []rtok, newCore string, ok bool) {
	a := scanTokens([]byte(oldS))
	b := scanTokens([]byte(newS))
	if len(a) == 0 {
		return nil, "", false
	}
	p := 0
	for p < len(a) && p < len(b) && sameTok(a[p], b[p]) {
		p++
	}
	s := 0
	for s < len(a)-p && s < len(b)-p && sameTok(a[len(a)-1-s], b[len(b)-1-s]) {
		s++
	}
	// never start the core right after a '.' or in the middle of a selector chain
	for p > 0 {
		if a[p-1].tok == token.PERIOD {
			p--
			continue
		}
		if p < len(a) && a[p].tok == token.PERIOD && a[p-1].tok == token.IDENT {
			p--
			continue
		}
		break
	}
	if p >= len(a)-s {
		return nil, "", false // pure insertion: nothing to anchor on
	}
	if p > len(b) || s > len(b)-p {
		return nil, "", false
	}
	oldCore = a[p : len(a)-s]
	nb := b[p : len(b)-s]
	if len(nb) == 0 {
		newCore = ""
	} else {
		newCore = newS[nb[0].off:nb[len(nb)-1].end]
	}
	return oldCore, newCore, true
}

func identsOf(s string) map[string]bool {
	m := map[string]bool{}
	for _, t := range scanTokens([]byte(s)) {
		if t.tok == token.IDENT && t.lit != "_" {
			m[t.lit] = true
		}
	}
	return m
}

// applyRewriteFallback returns the rewritten source, or ok=false.
func applyRewriteFallback(path string, src []byte, rw Rewrite) ([]byte, bool) {
	core, newCore, ok := rewriteCore(rw.Old, rw.New)
	if !ok {
		return nil, false
	}
	toks := scanTokens(src)
	var matches []int
	for i := 0; i+len(core) <= len(toks); i++ {
		hit := true
		for j := range core {
			if !sameTok(toks[i+j], core[j]) {
				hit = false
				break
			}
		}
		if hit {
			matches = append(matches, i)
			i += len(core) - 1
		}
	}
	if len(matches) == 0 {
		if len(core) > 1 && newCore != "" && strings.Contains(string(src), newCore) {
			return src, true // an earlier fallback of the same core already replaced every occurrence
		}
		return nil, false
	}
	single := len(core) == 1
	if single && core[0].tok != token.INT {
		return nil, false // a lone identifier/operator is too weak an anchor
	}
	if single {
		if len(matches) > 1 {
			// prefer literals on a line that mentions an identifier of the old text
			ids := identsOf(rw.Old)
			var pref []int
			for _, m := range matches {
				ls := strings.LastIndexByte(string(src[:toks[m].off]), '\n') + 1
				le := strings.IndexByte(string(src[toks[m].off:]), '\n')
				if le < 0 {
					le = len(src) - toks[m].off
				}
				line := string(src[ls : toks[m].off+le])
				for id := range identsOf(line) {
					if ids[id] {
						pref = append(pref, m)
						break
					}
				}
			}
			if len(pref) != 1 {
				return nil, false
			}
			matches = pref
		}
		m := matches[0]
		out, ok := replaceLiteral(path, src, toks[m].off, toks[m].end, newCore)
		if ok {
			n := fmt.Sprintf("%s: literal %s -> %s (exact text %q no longer present)", path, core[0].lit, newCore, rw.Old)
			rewriteNotes = append(rewriteNotes, n)
			fmt.Fprintln(os.Stderr, "rewrite-fallback:", n)
		}
		return out, ok
	}
	sort.Sort(sort.Reverse(sort.IntSlice(matches)))
	out := append([]byte{}, src...)
	for _, m := range matches {
		s, e := toks[m].off, toks[m+len(core)-1].end
		out = append(out[:s], append([]byte(newCore), out[e:]...)...)
	}
	n := fmt.Sprintf("%s: %d occurrence(s) of the core of %q -> %q", path, len(matches), rw.Old, newCore)
	rewriteNotes = append(rewriteNotes, n)
	fmt.Fprintln(os.Stderr, "rewrite-fallback:", n)
	return out, true
}

func isIntLiteral(s string) bool {
	t := scanTokens([]byte(s))
	return len(t) == 1 && t[0].tok == token.INT
}

// replaceLiteral replaces src[s:e] by repl; a literal inside a const declaration whose replacement
// is not a constant expression of literals turns that one const spec into a var.
func replaceLiteral(path string, src []byte, s, e int, repl string) ([]byte, bool) {
	constOK := true
	for _, t := range scanTokens([]byte(repl)) {
		if t.tok == token.IDENT {
			constOK = false
		}
	}
	fs := token.NewFileSet()
	f, err := parser.ParseFile(fs, path, src, parser.ParseComments)
	if err != nil {
		return nil, false
	}
	base := fs.File(f.Pos())
	var gen *ast.GenDecl
	var spec *ast.ValueSpec
	ast.Inspect(f, func(n ast.Node) bool {
		if g, ok := n.(*ast.GenDecl); ok && g.Tok == token.CONST {
			for _, sp := range g.Specs {
				vs := sp.(*ast.ValueSpec)
				if base.Offset(vs.Pos()) <= s && e <= base.Offset(vs.End()) {
					gen, spec = g, vs
				}
			}
		}
		return true
	})
	plain := func() []byte {
		out := append([]byte{}, src[:s]...)
		out = append(out, repl...)
		return append(out, src[e:]...)
	}
	if gen == nil || constOK {
		return plain(), true
	}
	if len(spec.Names) != 1 || len(spec.Values) != 1 {
		return nil, false
	}
	// text of the spec with the literal replaced
	ss, se := base.Offset(spec.Pos()), base.Offset(spec.End())
	specText := string(src[ss:s]) + repl + string(src[e:se])
	if !gen.Lparen.IsValid() {
		// `const name [T] = lit`  ->  `var name [T] = repl`
		gs := base.Offset(gen.Pos())
		out := append([]byte{}, src[:gs]...)
		out = append(out, "var "...)
		out = append(out, specText...)
		return append(out, src[se:]...), true
	}
	// inside a const ( ... ) block: blank the spec there and re-declare it as a var after the block
	// (iota-based blocks are left alone)
	for _, sp := range gen.Specs {
		for _, v := range sp.(*ast.ValueSpec).Values {
			bad := false
			ast.Inspect(v, func(n ast.Node) bool {
				if id, ok := n.(*ast.Ident); ok && id.Name == "iota" {
					bad = true
				}
				return true
			})
			if bad {
				return nil, false
			}
		}
	}
	ge := base.Offset(gen.End())
	out := append([]byte{}, src[:ss]...)
	out = append(out, "_ = 0"...)
	out = append(out, src[se:ge]...)
	out = append(out, "\nvar "+specText+"\n"...)
	return append(out, src[ge:]...), true
}
