// vcheck: driver for solver-based checking of /repo with the symgo engine.
//
//	vcheck run <PROPERTY> [--tier quick|thorough]     decide every obligation of a property
//	vcheck oblig <OBLIGATION> [--tier ...] [--out f]  decide one obligation (worker)
//	vcheck replay <replay.json>                       replay a counterexample
//	vcheck list
package main

import (
	"bytes"
	"crypto/sha1"
	"encoding/json"
	"flag"
	"fmt"
	"go/ast"
	"go/parser"
	"go/token"
	"os"
	"os/exec"
	"path/filepath"
	"runtime/debug"
	"runtime/pprof"
	"sort"
	"strconv"
	"strings"
	"sync"
	"time"

	"symgo/symgo"
)

type TierCfg struct {
	Params   map[string]int `json:"params"`
	TimeoutS int            `json:"timeout_s"`
	MaxPaths int            `json:"max_paths"`
	QueryMs  int            `json:"query_ms"`
	Skip     bool           `json:"skip"`
	MaxSteps int64          `json:"max_steps"`
	Unwind   int            `json:"unwind"`
	MaxConc  int            `json:"max_conc"`
	Switches int            `json:"max_switches"`
}

type Rename struct {
	File string `json:"file"` // repo-relative (or absolute) source file
	Recv string `json:"recv"` // receiver type name without '*', "" for plain functions
	Func string `json:"func"`
}

type Rewrite struct {
	File     string `json:"file"`
	Old      string `json:"old"`
	New      string `json:"new"`
	All      bool   `json:"all"`      // replace every occurrence (at least one required unless optional)
	Optional bool   `json:"optional"` // a missing text is not an error (performance-only rewrites)
}

type Oblig struct {
	ID          string             `json:"id"`
	Property    string             `json:"property"`
	Dir         string             `json:"dir"`     // repo-relative package dir ("" = root)
	Harness     []string           `json:"harness"` // files under /verif/harness
	Entry       string             `json:"entry"`
	Roots       []string           `json:"roots"`
	Unwind      int                `json:"unwind"`
	Native      bool               `json:"native"`     // harness can be replayed natively (no engine-only models)
	Race        bool               `json:"race_check"` // happens-before race detection on heap cells and maps
	Sched       bool               `json:"sched"`      // schedule-dependent: a native run is best-effort (the Go scheduler picks the interleaving)
	Renames     []Rename           `json:"renames"`
	Rewrites    []Rewrite          `json:"rewrites"`
	Tiers       map[string]TierCfg `json:"tiers"`
	Alt         string             `json:"alt_solver"` // e.g. cvc5-bvint for arithmetic-heavy obligations
	Solver      string             `json:"solver"`     // main back end (default z3); e.g. "cvc5" for comparison-chain heavy obligations
	Kind        string             `json:"kind"`       // "" (symbolic exploration) | "locksmt" (lock traces + SMT interleaving check)
	ReplayEntry string             `json:"replay_entry"`
	Expect      string             `json:"expect"` // "" | "reach" (a twin whose violation is expected)
	Desc        string             `json:"desc"`
	Bounds      string             `json:"bounds"`
	Assumes     []string           `json:"assumes"`
}

type Registry struct {
	Obligations []Oblig `json:"obligations"`
}

type KnownFinding struct {
	ID         string `json:"id"`
	Property   string `json:"property"`
	Obligation string `json:"obligation"`
	Status     string `json:"status"` // known | fixed
	What       string `json:"what"`
	Commit     string `json:"commit,omitempty"`
}

type ObligResult struct {
	ID            string            `json:"id"`
	Property      string            `json:"property"`
	Tier          string            `json:"tier"`
	Status        string            `json:"status"` // ok | violation | inconclusive | error
	Error         string            `json:"error,omitempty"`
	Paths         int               `json:"paths"`
	PathsOK       int               `json:"paths_ok"`
	PathsInfeas   int               `json:"paths_infeasible"`
	Decisions     int               `json:"decisions"`
	Asserts       int               `json:"asserts"`
	Discharged    int               `json:"discharged"`
	Steps         int64             `json:"ssa_steps"`
	Queries       int               `json:"queries"`
	Sat           int               `json:"sat"`
	Unsat         int               `json:"unsat"`
	Unknown       int               `json:"unknown"`
	SolverS       float64           `json:"solver_s"`
	AltQueries    int               `json:"alt_queries"`
	AltSolverS    float64           `json:"alt_solver_s"`
	LoadS         float64           `json:"load_s"`
	WallS         float64           `json:"wall_s"`
	Inconclusive  []string          `json:"inconclusive,omitempty"`
	Violations    []symgo.Violation `json:"violations,omitempty"`
	ReplayFiles   []string          `json:"replay_files,omitempty"`
	KnownHit      map[string]int    `json:"known_hit,omitempty"`
	Reach         map[string]int    `json:"reach,omitempty"`
	Funcs         []string          `json:"functions_encoded"`
	Stubs         map[string]int    `json:"stubs"`
	Samples       []string          `json:"samples"`
	Bounds        string            `json:"bounds"`
	Params        map[string]int    `json:"params"`
	Desc          string            `json:"desc"`
	Assumes       []string          `json:"assumes,omitempty"`
	RewriteNotes  []string          `json:"rewrite_fallbacks,omitempty"`
	NativeReplays int               `json:"native_replays"`
	Validated     int               `json:"vectors_validated"`
}

var (
	verifDir = envOr("VERIF_DIR", "/verif")
	repoDir  = envOr("VERIF_REPO", "/repo")
)

func envOr(k, d string) string {
	if v := os.Getenv(k); v != "" {
		return v
	}
	return d
}

func loadRegistry() *Registry {
	var reg Registry
	files, _ := filepath.Glob(filepath.Join(verifDir, "harness", "registry*.json"))
	sort.Strings(files)
	for _, f := range files {
		b, err := os.ReadFile(f)
		if err != nil {
			fatal("registry: %v", err)
		}
		var r Registry
		if err := json.Unmarshal(b, &r); err != nil {
			fatal("registry %s: %v", f, err)
		}
		reg.Obligations = append(reg.Obligations, r.Obligations...)
	}
	return &reg
}

func loadKnown() []KnownFinding {
	var out []KnownFinding
	files := []string{filepath.Join(verifDir, "known-findings.json")}
	more, _ := filepath.Glob(filepath.Join(verifDir, "known-findings.d", "*.json"))
	sort.Strings(more)
	files = append(files, more...)
	for _, fn := range files {
		b, err := os.ReadFile(fn)
		if err != nil {
			continue
		}
		var f struct {
			Findings []KnownFinding `json:"findings"`
		}
		if err := json.Unmarshal(b, &f); err != nil {
			fatal("%s: %v", fn, err)
		}
		out = append(out, f.Findings...)
	}
	return out
}

func fatal(f string, a ...interface{}) {
	fmt.Fprintf(os.Stderr, "vcheck: "+f+"\n", a...)
	os.Exit(2)
}

func main() {
	if len(os.Args) < 2 {
		fatal("usage: vcheck run|oblig|replay|list ...")
	}
	switch os.Args[1] {
	case "run":
		cmdRun(os.Args[2:])
	case "oblig":
		cmdOblig(os.Args[2:])
	case "replay":
		cmdReplay(os.Args[2:])
	case "list":
		for _, o := range loadRegistry().Obligations {
			fmt.Printf("%-18s %-4s %-40s %s\n", o.ID, o.Property, o.Dir, o.Entry)
		}
	default:
		fatal("unknown command %s", os.Args[1])
	}
}

// ---------------------------------------------------------------------------
// overlay construction

func pkgNameOf(src []byte) string {
	fs := token.NewFileSet()
	f, err := parser.ParseFile(fs, "x.go", src, parser.PackageClauseOnly)
	if err != nil {
		fatal("harness parse: %v", err)
	}
	return f.Name.Name
}

// buildOverlay returns virtual path -> content for an obligation.
func buildOverlay(o *Oblig, withReplayTest bool) (map[string][]byte, string) {
	ov := map[string][]byte{}
	pkgDir := filepath.Join(repoDir, o.Dir)
	pkgName := ""
	for _, h := range o.Harness {
		src, err := os.ReadFile(filepath.Join(verifDir, "harness", h))
		if err != nil {
			fatal("harness %s: %v", h, err)
		}
		if pkgName == "" {
			pkgName = pkgNameOf(src)
		}
		base := "zz_verif_" + strings.ReplaceAll(strings.TrimSuffix(h, ".go"), "/", "_") + ".go"
		ov[filepath.Join(pkgDir, base)] = src
	}
	ov[filepath.Join(pkgDir, "zz_verif_rt.go")] = []byte(strings.ReplaceAll(rtTemplate, "PKGNAME", pkgName))
	if withReplayTest {
		t := strings.ReplaceAll(replayTestTemplate, "PKGNAME", pkgName)
		t = strings.ReplaceAll(t, "ENTRY", o.Entry)
		ov[filepath.Join(pkgDir, "zz_verif_replay_test.go")] = []byte(t)
	}
	// function renames: the real function becomes verifOrig_<name>; the harness supplies <name>
	byFile := map[string][]Rename{}
	for _, r := range o.Renames {
		p := r.File
		if !filepath.IsAbs(p) {
			p = filepath.Join(repoDir, p)
		}
		if src, err := os.ReadFile(p); err != nil || !hasFuncDecl(p, src, r.Recv, r.Func) {
			// the function was moved to another file of the package
			for _, q := range siblingGoFiles(p) {
				if s2, err := os.ReadFile(q); err == nil && hasFuncDecl(q, s2, r.Recv, r.Func) {
					rewriteNotes = append(rewriteNotes, fmt.Sprintf("rename of %s.%s: found in %s instead of %s", r.Recv, r.Func, q, p))
					p = q
					break
				}
			}
		}
		byFile[p] = append(byFile[p], r)
	}
	for p, rs := range byFile {
		src, ok := ov[p]
		if !ok {
			var err error
			src, err = os.ReadFile(p)
			if err != nil {
				fatal("rename: %v", err)
			}
		}
		fs := token.NewFileSet()
		f, err := parser.ParseFile(fs, p, src, parser.ParseComments)
		if err != nil {
			fatal("rename parse %s: %v", p, err)
		}
		type edit struct{ off int }
		var edits []int
		for _, r := range rs {
			found := false
			for _, d := range f.Decls {
				fd, ok := d.(*ast.FuncDecl)
				if !ok || fd.Name.Name != r.Func {
					continue
				}
				recv := ""
				if fd.Recv != nil && len(fd.Recv.List) == 1 {
					t := fd.Recv.List[0].Type
					if st, ok := t.(*ast.StarExpr); ok {
						t = st.X
					}
					if ix, ok := t.(*ast.IndexExpr); ok {
						t = ix.X
					}
					if id, ok := t.(*ast.Ident); ok {
						recv = id.Name
					}
				}
				if recv != r.Recv {
					continue
				}
				edits = append(edits, fs.Position(fd.Name.Pos()).Offset)
				found = true
			}
			if !found {
				fatal("rename: function %s.%s not found in %s (harness out of date with the tree)", r.Recv, r.Func, p)
			}
		}
		sort.Sort(sort.Reverse(sort.IntSlice(edits)))
		out := append([]byte{}, src...)
		for _, off := range edits {
			out = append(out[:off], append([]byte("verifOrig_"), out[off:]...)...)
		}
		ov[p] = out
	}
	// identical rewrites listed k times mean "every occurrence" (robust against a tree that has
	// fewer or more occurrences than when the harness was written)
	seenRw := map[string]int{}
	for _, rw := range o.Rewrites {
		seenRw[rw.File+"\x00"+rw.Old+"\x00"+rw.New]++
	}
	doneRw := map[string]bool{}
	for _, rw := range o.Rewrites {
		key := rw.File + "\x00" + rw.Old + "\x00" + rw.New
		if doneRw[key] {
			continue
		}
		all := rw.All || seenRw[key] > 1
		if all {
			doneRw[key] = true
		}
		p := rw.File
		if !filepath.IsAbs(p) {
			p = filepath.Join(repoDir, p)
		}
		src, ok := ov[p]
		if !ok {
			var err error
			src, err = os.ReadFile(p)
			if err != nil {
				fatal("rewrite: %v", err)
			}
		}
		if os.Getenv("VERIF_FORCE_REWRITE_FALLBACK") != "" && !rw.Optional {
			// self-test of the fallback: use it although the exact text is present
			if out, ok := applyRewriteFallback(p, src, rw); ok {
				ov[p] = out
				doneRw[key] = true
				continue
			}
		}
		if !bytes.Contains(src, []byte(rw.Old)) {
			if rw.Optional {
				continue
			}
			// the code was moved to another file of the package
			moved := false
			for _, q := range siblingGoFiles(p) {
				s2, ok := ov[q]
				if !ok {
					s2, _ = os.ReadFile(q)
				}
				if bytes.Contains(s2, []byte(rw.Old)) {
					if all {
						ov[q] = bytes.ReplaceAll(s2, []byte(rw.Old), []byte(rw.New))
					} else {
						ov[q] = bytes.Replace(s2, []byte(rw.Old), []byte(rw.New), 1)
					}
					rewriteNotes = append(rewriteNotes, fmt.Sprintf("rewrite of %q: found in %s instead of %s", rw.Old, q, p))
					moved = true
					break
				}
			}
			if !moved {
				if out, ok := applyRewriteFallback(p, src, rw); ok {
					ov[p] = out
					doneRw[key] = true
					continue
				}
			}
			if !moved {
				for _, q := range siblingGoFiles(p) {
					s2, ok := ov[q]
					if !ok {
						s2, _ = os.ReadFile(q)
					}
					if out, ok := applyRewriteFallback(q, s2, rw); ok {
						ov[q] = out
						moved = true
						break
					}
				}
			}
			if moved {
				doneRw[key] = true
				continue
			}
			fatal("rewrite: text %q not found in %s (harness out of date with the tree)", rw.Old, p)
		}
		if all {
			ov[p] = bytes.ReplaceAll(src, []byte(rw.Old), []byte(rw.New))
			// listed k times = "every occurrence": when the file now holds fewer than k, the others
			// were moved to sibling files of the package; follow them
			if missing := seenRw[key] - bytes.Count(src, []byte(rw.Old)); missing > 0 && !rw.All {
				for _, q := range siblingGoFiles(p) {
					s2, ok := ov[q]
					if !ok {
						s2, _ = os.ReadFile(q)
					}
					if bytes.Contains(s2, []byte(rw.Old)) {
						ov[q] = bytes.ReplaceAll(s2, []byte(rw.Old), []byte(rw.New))
						rewriteNotes = append(rewriteNotes, fmt.Sprintf("rewrite of %q: %d listed occurrence(s) missing in %s, replaced in %s", rw.Old, missing, p, q))
					}
				}
			}
		} else {
			ov[p] = bytes.Replace(src, []byte(rw.Old), []byte(rw.New), 1)
		}
	}
	return ov, pkgName
}

// siblingGoFiles lists the other non-test Go source files of p's directory.
func siblingGoFiles(p string) []string {
	ents, _ := os.ReadDir(filepath.Dir(p))
	var out []string
	for _, e := range ents {
		n := e.Name()
		if e.IsDir() || !strings.HasSuffix(n, ".go") || strings.HasSuffix(n, "_test.go") || n == filepath.Base(p) {
			continue
		}
		out = append(out, filepath.Join(filepath.Dir(p), n))
	}
	return out
}

func hasFuncDecl(p string, src []byte, recvName, name string) bool {
	if !bytes.Contains(src, []byte(name)) {
		return false
	}
	fs := token.NewFileSet()
	f, err := parser.ParseFile(fs, p, src, 0)
	if err != nil {
		return false
	}
	for _, d := range f.Decls {
		fd, ok := d.(*ast.FuncDecl)
		if !ok || fd.Name.Name != name {
			continue
		}
		recv := ""
		if fd.Recv != nil && len(fd.Recv.List) == 1 {
			t := fd.Recv.List[0].Type
			if st, ok := t.(*ast.StarExpr); ok {
				t = st.X
			}
			if ix, ok := t.(*ast.IndexExpr); ok {
				t = ix.X
			}
			if id, ok := t.(*ast.Ident); ok {
				recv = id.Name
			}
		}
		if recv == recvName {
			return true
		}
	}
	return false
}

func pkgPathOf(o *Oblig) string {
	if o.Dir == "" {
		return "."
	}
	return "./" + o.Dir
}

// ---------------------------------------------------------------------------
// worker: one obligation

func tierOf(o *Oblig, tier string) TierCfg {
	t, ok := o.Tiers[tier]
	if !ok {
		t = o.Tiers["quick"]
	}
	if t.TimeoutS == 0 {
		if tier == "thorough" {
			t.TimeoutS = 1200
		} else {
			t.TimeoutS = 150
		}
	}
	if t.QueryMs == 0 {
		if tier == "thorough" {
			t.QueryMs = 120000
		} else {
			t.QueryMs = 30000
		}
	}
	if t.MaxSteps == 0 {
		t.MaxSteps = 50_000_000
	}
	if t.Unwind == 0 {
		t.Unwind = o.Unwind
	}
	if t.MaxConc == 0 {
		t.MaxConc = 300
	}
	return t
}

func cmdOblig(args []string) {
	debug.SetGCPercent(400)
	if p := os.Getenv("SYMGO_CPUPROFILE"); p != "" {
		f, _ := os.Create(p)
		pprof.StartCPUProfile(f)
		defer pprof.StopCPUProfile()
	}
	fs := flag.NewFlagSet("oblig", flag.ExitOnError)
	tier := fs.String("tier", "quick", "")
	out := fs.String("out", "", "")
	if len(args) == 0 {
		fatal("oblig: missing id")
	}
	id := args[0]
	fs.Parse(args[1:])
	reg := loadRegistry()
	var o *Oblig
	for i := range reg.Obligations {
		if reg.Obligations[i].ID == id {
			o = &reg.Obligations[i]
		}
	}
	if o == nil {
		fatal("unknown obligation %s", id)
	}
	res := runOblig(o, *tier)
	b, _ := json.MarshalIndent(res, "", " ")
	if *out != "" {
		os.WriteFile(*out, b, 0o644)
	} else {
		os.Stdout.Write(b)
		fmt.Println()
	}
	pprof.StopCPUProfile()
	switch res.Status {
	case "ok":
		os.Exit(0)
	case "violation":
		os.Exit(1)
	default:
		os.Exit(2)
	}
}

func runOblig(o *Oblig, tier string) *ObligResult {
	t0 := time.Now()
	tc := tierOf(o, tier)
	res := &ObligResult{ID: o.ID, Property: o.Property, Tier: tier, Bounds: o.Bounds, Params: tc.Params, Desc: o.Desc, Assumes: o.Assumes}
	rewriteNotes = nil
	ov, _ := buildOverlay(o, false)
	res.RewriteNotes = rewriteNotes
	for _, n := range rewriteNotes {
		res.Assumes = append(append([]string{}, res.Assumes...), "source rewrite applied through its token-level fallback (tree differs from the text the harness was written against): "+n)
	}
	prog, err := symgo.Load(repoDir, pkgPathOf(o), o.Roots, ov, "verif")
	if err != nil {
		res.Status = "error"
		res.Error = err.Error()
		// Does the tree itself (same package, same roots, no harness overlay) load? Then only the
		// harness is out of date with the tree (a private helper it names was renamed, moved out of
		// reach or changed its signature): the obligation is undecidable on this tree, not failed.
		if _, err2 := symgo.Load(repoDir, pkgPathOf(o), o.Roots, nil, ""); err2 == nil {
			res.Status = "skipped"
			res.Error = "harness out of date with the tree (the tree itself builds): " + err.Error()
		}
		return res
	}
	res.LoadS = prog.LoadDur.Seconds()
	mainSolver := "z3"
	if o.Solver != "" {
		mainSolver = o.Solver
	}
	solver, err := symgo.NewSolver(mainSolver, tc.QueryMs)
	if err != nil {
		res.Status = "error"
		res.Error = err.Error()
		return res
	}
	defer solver.Close()
	lim := symgo.Limits{Unwind: tc.Unwind, MaxSteps: tc.MaxSteps, MaxPaths: tc.MaxPaths, MaxConc: tc.MaxConc, MaxViol: 8,
		TimeBudget: time.Duration(tc.TimeoutS) * time.Second, MaxSwitches: tc.Switches}
	ex := symgo.NewExplorer(solver, lim)
	ex.Oblig = o.ID
	ex.Params = tc.Params
	ex.RaceCheck = o.Race
	if o.Native && os.Getenv("VERIF_NO_VALIDATE") == "" {
		ex.MaxVectors = 6
		if tier == "thorough" {
			ex.MaxVectors = 24
		}
	}
	if o.Alt != "" {
		alt, err := symgo.NewSolver(o.Alt, tc.QueryMs)
		if err == nil {
			ex.Alt = alt
			defer alt.Close()
		}
	}
	for _, k := range loadKnown() {
		if k.Status == "known" && k.Property == o.Property {
			ex.Known[k.ID] = true
		}
	}
	if o.Kind == "locksmt" {
		runLockSMT(o, tier, tc, prog, solver, lim, ex, res)
		res.WallS = time.Since(t0).Seconds()
		return res
	}
	if err := prog.Explore(o.Entry, ex); err != nil {
		res.Status = "error"
		res.Error = err.Error()
		return res
	}
	st := ex.Stats
	res.Paths, res.PathsOK, res.PathsInfeas, res.Decisions = st.Paths, st.PathsOK, st.PathsInfeas, st.Decisions
	res.Asserts, res.Discharged, res.Steps = st.Asserts, st.Discharged, st.Steps
	res.Queries, res.Sat, res.Unsat, res.Unknown = solver.Queries, solver.NSat, solver.NUnsat, solver.NUnknown
	res.SolverS = solver.Time.Seconds()
	if ex.Alt != nil {
		res.AltQueries = ex.Alt.Queries
		res.AltSolverS = ex.Alt.Time.Seconds()
		res.Sat += ex.Alt.NSat
		res.Unsat += ex.Alt.NUnsat
		res.Unknown += ex.Alt.NUnknown
	}
	res.Inconclusive = st.Inconclusive
	res.KnownHit = ex.KnownHit
	res.Reach = st.ReachLabels
	res.Funcs = ex.FuncList()
	res.Stubs = ex.Stubs
	res.Samples = ex.Samples
	res.Violations = ex.Viols

	// replay every new violation concretely through the engine (and natively when possible)
	newViol := 0
	for i := range res.Violations {
		v := &res.Violations[i]
		if v.Known != "" {
			continue
		}
		ex2 := symgo.NewExplorer(solver, lim)
		ex2.Oblig = o.ID
		ex2.Params = tc.Params
		ex2.RaceCheck = o.Race
		prog.ReplayConcrete(o.Entry, ex2, v.Inputs, v.UF)
		if len(ex2.Viols) > 0 {
			v.Replayed = "engine-concrete: reproduced (" + ex2.Viols[0].Kind + " " + ex2.Viols[0].Label + ")"
		} else {
			v.Replayed = "engine-concrete: NOT reproduced"
			res.Inconclusive = append(res.Inconclusive, "spurious counterexample for "+v.Label+" (concrete replay did not reproduce)")
			continue
		}
		path := writeReplay(o, tier, tc, v)
		res.ReplayFiles = append(res.ReplayFiles, path)
		if o.Native && res.NativeReplays < 2 && v.Kind != "alloc" { // an allocation above the harness limit is not a native crash
			ok, outp := nativeReplay(o, path, v.Kind == "deadlock")
			res.NativeReplays++
			if ok {
				v.Replayed += "; native go test: reproduced"
			} else if o.Sched {
				v.Replayed += "; native go test: not reproduced under the Go scheduler's interleaving (schedule-dependent; the engine replay with the recorded schedule is authoritative)"
			} else {
				v.Replayed += "; native go test: NOT reproduced: " + lastLines(outp, 6)
				res.Inconclusive = append(res.Inconclusive, "counterexample for "+v.Label+" did not reproduce natively")
				continue
			}
		}
		newViol++
	}
	// translator validation: the same concrete vectors through the engine and natively
	if len(ex.PathVectors) > 0 && newViol == 0 {
		n, mism := validateVectors(o, prog, solver, lim, tc, ex.PathVectors)
		res.Validated = n
		for _, m := range mism {
			res.Inconclusive = append(res.Inconclusive, "engine mismatch (translator validation): "+m)
		}
	}
	if o.Expect == "reach" {
		// vacuity twin: the final assert(false) must be reachable
		if newViol > 0 {
			res.Status = "ok"
			res.Violations = nil
			res.ReplayFiles = nil
		} else {
			res.Status = "inconclusive"
			res.Inconclusive = append(res.Inconclusive, "vacuous: the end of the harness is not reachable under its assumptions")
		}
	} else {
		switch {
		case newViol > 0:
			res.Status = "violation"
		case len(res.Inconclusive) > 0:
			res.Status = "inconclusive"
		default:
			res.Status = "ok"
		}
	}
	res.WallS = time.Since(t0).Seconds()
	return res
}

// runLockSMT: phase 1 extracts the lock-operation trace of every API operation by symbolic
// execution of the real code (mutex operations recorded, not blocking); phase 2 asks the solver,
// for every combination of `threads` operations, whether some schedule reaches a deadlock under
// the RWMutex transition relation (the schedule is a vector of free SMT variables).
func runLockSMT(o *Oblig, tier string, tc TierCfg, prog *symgo.Program, solver *symgo.Solver, lim symgo.Limits, ex *symgo.Explorer, res *ObligResult) {
	ex.TraceSync = true
	if err := prog.Explore(o.Entry, ex); err != nil {
		res.Status = "error"
		res.Error = err.Error()
		return
	}
	st := ex.Stats
	res.Paths, res.PathsOK, res.Decisions, res.Steps = st.Paths, st.PathsOK, st.Decisions, st.Steps
	res.Funcs = ex.FuncList()
	res.Stubs = ex.Stubs
	res.Inconclusive = st.Inconclusive
	if len(ex.Viols) > 0 {
		res.Violations = ex.Viols
		res.Status = "violation"
		return
	}
	byOp := map[uint64][]symgo.SyncTrace{}
	var ops []uint64
	for _, t := range ex.SyncTraces {
		k := t.Choices["choice:op"]
		if _, ok := byOp[k]; !ok {
			ops = append(ops, k)
		}
		dup := false
		for _, u := range byOp[k] {
			if u.String() == t.String() {
				dup = true
			}
		}
		if !dup {
			byOp[k] = append(byOp[k], t)
		}
	}
	sort.Slice(ops, func(i, j int) bool { return ops[i] < ops[j] })
	nthreads := tc.Params["threads"]
	if nthreads < 2 {
		nthreads = 2
	}
	for _, k := range ops {
		for _, t := range byOp[k] {
			if len(res.Samples) < 40 {
				res.Samples = append(res.Samples, fmt.Sprintf("lock trace of op %d: [%s]", k, t.String()))
			}
		}
	}
	// enumerate multisets of operations of size nthreads (combinations with repetition) x trace variants
	var combos [][]uint64
	var rec func(start int, cur []uint64)
	rec = func(start int, cur []uint64) {
		if len(cur) == nthreads {
			combos = append(combos, append([]uint64{}, cur...))
			return
		}
		for i := start; i < len(ops); i++ {
			rec(i, append(cur, ops[i]))
		}
	}
	rec(0, nil)
	queries := 0
	for _, cb := range combos {
		// cartesian product of trace variants
		idx := make([]int, len(cb))
		for {
			var threads []symgo.SyncTrace
			empty := true
			for i, k := range cb {
				t := byOp[k][idx[i]]
				threads = append(threads, t)
				if len(t.Events) > 0 {
					empty = false
				}
			}
			if !empty {
				text, steps := symgo.DeadlockSMT(threads)
				var want []string
				for t := 0; t < steps; t++ {
					want = append(want, fmt.Sprintf("c_%d", t))
				}
				r, vals, err := solver.CheckRaw(text, want)
				queries++
				res.Asserts++
				switch {
				case err != nil || r == symgo.Unknown:
					res.Inconclusive = append(res.Inconclusive, fmt.Sprintf("solver unknown for ops %v: %v", cb, err))
				case r == symgo.Unsat:
					res.Discharged++
				default:
					var schedule []string
					for t := 0; t < steps; t++ {
						schedule = append(schedule, fmt.Sprint(vals[fmt.Sprintf("c_%d", t)]))
					}
					var desc []string
					in := map[string]uint64{}
					for i, th := range threads {
						desc = append(desc, fmt.Sprintf("T%d=op%d[%s]", i, cb[i], th.String()))
						in[fmt.Sprintf("op%d", i)] = cb[i]
					}
					v := symgo.Violation{Oblig: o.ID, Label: "deadlock", Kind: "deadlock", Inputs: in,
						Msg: "SMT: a schedule reaches a state where no unfinished thread can move: " + strings.Join(desc, " ") + " schedule=" + strings.Join(schedule, ",")}
					// replay: explore the same operations concurrently on the real code under the scheduler
					if o.ReplayEntry != "" {
						ex2 := symgo.NewExplorer(solver, lim)
						ex2.Oblig = o.ID
						ex2.Params = map[string]int{}
						for i, k := range cb {
							ex2.Params[fmt.Sprintf("op%d", i)] = int(k)
						}
						ex2.Params["threads"] = len(cb)
						prog.Explore(o.ReplayEntry, ex2)
						found := false
						for _, v2 := range ex2.Viols {
							if v2.Kind == "deadlock" {
								found = true
							}
						}
						if found {
							v.Replayed = "engine scheduler on the real code: deadlock reproduced"
						} else {
							v.Replayed = "NOT reproduced by the engine scheduler on the real code"
							res.Inconclusive = append(res.Inconclusive, "spurious SMT deadlock for ops "+fmt.Sprint(cb))
							goto next
						}
					}
					res.Violations = append(res.Violations, v)
					res.ReplayFiles = append(res.ReplayFiles, writeReplay(o, tier, tc, &v))
				}
			}
		next:
			// advance product index
			j := len(idx) - 1
			for j >= 0 {
				idx[j]++
				if idx[j] < len(byOp[cb[j]]) {
					break
				}
				idx[j] = 0
				j--
			}
			if j < 0 {
				break
			}
		}
	}
	res.Queries, res.Sat, res.Unsat, res.Unknown = solver.Queries, solver.NSat, solver.NUnsat, solver.NUnknown
	res.SolverS = solver.Time.Seconds()
	switch {
	case len(res.Violations) > 0:
		res.Status = "violation"
	case len(res.Inconclusive) > 0:
		res.Status = "inconclusive"
	default:
		res.Status = "ok"
	}
}

func lastLines(s string, n int) string {
	ls := strings.Split(strings.TrimSpace(s), "\n")
	if len(ls) > n {
		ls = ls[len(ls)-n:]
	}
	return strings.Join(ls, " | ")
}

type ReplayFile struct {
	Obligation string                       `json:"obligation"`
	Property   string                       `json:"property"`
	Tier       string                       `json:"tier"`
	Entry      string                       `json:"entry"`
	Label      string                       `json:"label"`
	Kind       string                       `json:"kind"`
	Msg        string                       `json:"msg"`
	Inputs     map[string]uint64            `json:"inputs"`
	UF         map[string]map[string]uint64 `json:"uf"`
	Params     map[string]int               `json:"params"`
	Trail      []string                     `json:"trail"`
}

func writeReplay(o *Oblig, tier string, tc TierCfg, v *symgo.Violation) string {
	rf := ReplayFile{Obligation: o.ID, Property: o.Property, Tier: tier, Entry: o.Entry, Label: v.Label, Kind: v.Kind, Msg: v.Msg,
		Inputs: v.Inputs, UF: v.UF, Params: tc.Params, Trail: v.Trail}
	b, _ := json.MarshalIndent(rf, "", " ")
	h := sha1.Sum(b)
	dir := filepath.Join(verifDir, "replays")
	os.MkdirAll(dir, 0o755)
	p := filepath.Join(dir, fmt.Sprintf("%s-%x.json", o.ID, h[:5]))
	os.WriteFile(p, b, 0o644)
	return p
}

// nativeReplay runs the harness natively (go test -overlay) with the replay vector.
func nativeReplay(o *Oblig, replayPath string, deadlock bool) (bool, string) {
	ov, _ := buildOverlay(o, true)
	tmp, err := os.MkdirTemp("", "vcheck-replay-")
	if err != nil {
		return false, err.Error()
	}
	defer os.RemoveAll(tmp)
	repl := map[string]string{}
	n := 0
	for virt, content := range ov {
		n++
		real := filepath.Join(tmp, fmt.Sprintf("f%d_%s", n, filepath.Base(virt)))
		os.WriteFile(real, content, 0o644)
		repl[virt] = real
	}
	ovj, _ := json.Marshal(map[string]interface{}{"Replace": repl})
	ovp := filepath.Join(tmp, "overlay.json")
	os.WriteFile(ovp, ovj, 0o644)
	to := "180s"
	if deadlock {
		to = "15s"
	}
	mf := symgo.ScratchModfile(repoDir)
	if mf != "" {
		defer os.RemoveAll(filepath.Dir(mf))
	}
	cmd := exec.Command("go", "test", "-tags=verif", "-vet=off", "-count=1", "-run", "^TestVerifReplay$", "-modfile="+mf, "-overlay", ovp, "-timeout", to, "-v", pkgPathOf(o))
	cmd.Dir = repoDir
	cmd.Env = append(os.Environ(), "GOFLAGS=-mod=mod", "GOPROXY=off", "GOSUMDB=off", "GOTOOLCHAIN=local", "VERIF_REPLAY="+replayPath)
	outp, _ := cmd.CombinedOutput()
	s := string(outp)
	return strings.Contains(s, "VERIF-NATIVE-VIOLATION") || (strings.Contains(s, "panic:") && strings.Contains(s, "FAIL")), s
}

// validateVectors runs concrete input vectors (taken from the models of explored paths) both
// through symgo in concrete mode and natively (go test -overlay) and compares the outcome
// (violated or not) and the observation log.
func validateVectors(o *Oblig, prog *symgo.Program, solver *symgo.Solver, lim symgo.Limits, tc TierCfg, vecs []symgo.PathVector) (int, []string) {
	type nv struct {
		Inputs map[string]uint64            `json:"inputs"`
		UF     map[string]map[string]uint64 `json:"uf"`
		Params map[string]int               `json:"params"`
	}
	var list []nv
	engViol := make([]bool, len(vecs))
	engObs := make([]string, len(vecs))
	for i, v := range vecs {
		list = append(list, nv{v.Inputs, v.UF, tc.Params})
		ex2 := symgo.NewExplorer(solver, lim)
		ex2.Oblig = o.ID
		ex2.Params = tc.Params
		prog.ReplayConcrete(o.Entry, ex2, v.Inputs, v.UF)
		engViol[i] = len(ex2.Viols) > 0
		engObs[i] = strings.Join(ex2.ObsLog(), "|")
	}
	tmp, err := os.MkdirTemp("", "vcheck-vec-")
	if err != nil {
		return 0, []string{err.Error()}
	}
	defer os.RemoveAll(tmp)
	vb, _ := json.Marshal(list)
	vp := filepath.Join(tmp, "vectors.json")
	os.WriteFile(vp, vb, 0o644)
	ov, _ := buildOverlay(o, true)
	repl := map[string]string{}
	n := 0
	for virt, content := range ov {
		n++
		real := filepath.Join(tmp, fmt.Sprintf("f%d_%s", n, filepath.Base(virt)))
		os.WriteFile(real, content, 0o644)
		repl[virt] = real
	}
	ovj, _ := json.Marshal(map[string]interface{}{"Replace": repl})
	ovp := filepath.Join(tmp, "overlay.json")
	os.WriteFile(ovp, ovj, 0o644)
	mf := symgo.ScratchModfile(repoDir)
	if mf != "" {
		defer os.RemoveAll(filepath.Dir(mf))
	}
	cmd := exec.Command("go", "test", "-tags=verif", "-vet=off", "-count=1", "-run", "^TestVerifVectors$", "-modfile="+mf, "-overlay", ovp, "-timeout", "300s", "-v", pkgPathOf(o))
	cmd.Dir = repoDir
	cmd.Env = append(os.Environ(), "GOFLAGS=-mod=mod", "GOPROXY=off", "GOSUMDB=off", "GOTOOLCHAIN=local", "VERIF_VECTORS="+vp)
	outp, _ := cmd.CombinedOutput()
	var mism []string
	seen := 0
	for _, line := range strings.Split(string(outp), "\n") {
		ix := strings.Index(line, "VERIF-VEC ")
		if ix < 0 {
			continue
		}
		var i int
		var viol bool
		var obs, msg string
		if _, err := fmt.Sscanf(line[ix:], "VERIF-VEC %d violated=%t obs=%q msg=%q", &i, &viol, &obs, &msg); err != nil || i >= len(vecs) {
			continue
		}
		seen++
		if viol != engViol[i] {
			mism = append(mism, fmt.Sprintf("vector %d: native violated=%v (%s), engine violated=%v", i, viol, msg, engViol[i]))
		} else if !o.Sched && obs != engObs[i] {
			mism = append(mism, fmt.Sprintf("vector %d: observation logs differ: native %q engine %q", i, obs, engObs[i]))
		}
	}
	if seen == 0 {
		mism = append(mism, "native vector run produced no result: "+lastLines(string(outp), 8))
	}
	return seen, mism
}

func cmdReplay(args []string) {
	if len(args) < 1 {
		fatal("replay: missing path")
	}
	b, err := os.ReadFile(args[0])
	if err != nil {
		fatal("%v", err)
	}
	var rf ReplayFile
	if err := json.Unmarshal(b, &rf); err != nil {
		fatal("%v", err)
	}
	reg := loadRegistry()
	var o *Oblig
	for i := range reg.Obligations {
		if reg.Obligations[i].ID == rf.Obligation {
			o = &reg.Obligations[i]
		}
	}
	if o == nil {
		fatal("unknown obligation %s", rf.Obligation)
	}
	ov, _ := buildOverlay(o, false)
	prog, err := symgo.Load(repoDir, pkgPathOf(o), o.Roots, ov, "verif")
	if err != nil {
		fatal("%v", err)
	}
	solver, _ := symgo.NewSolver("z3", 10000)
	defer solver.Close()
	ex := symgo.NewExplorer(solver, symgo.Limits{MaxSteps: 200_000_000})
	ex.Oblig = o.ID
	ex.Params = rf.Params
	prog.ReplayConcrete(o.Entry, ex, rf.Inputs, rf.UF)
	reproduced := len(ex.Viols) > 0
	fmt.Printf("engine-concrete replay of %s (%s): reproduced=%v\n", rf.Obligation, rf.Label, reproduced)
	for _, v := range ex.Viols {
		fmt.Printf("  %s %s: %s\n", v.Kind, v.Label, v.Msg)
	}
	if o.Native {
		ok, outp := nativeReplay(o, args[0], rf.Kind == "deadlock")
		fmt.Printf("native replay (go test -overlay): reproduced=%v\n%s\n", ok, lastLines(outp, 12))
		reproduced = reproduced && ok
	}
	if reproduced {
		os.Exit(1)
	}
	os.Exit(0)
}

// ---------------------------------------------------------------------------
// parent: one property

func cmdRun(args []string) {
	if len(args) == 0 {
		fatal("run: missing property id")
	}
	prop := args[0]
	fs := flag.NewFlagSet("run", flag.ExitOnError)
	tierF := fs.String("tier", "", "")
	par := fs.Int("j", 16, "")
	only := fs.String("only", "", "comma-separated obligation ids")
	fs.Parse(args[1:])
	tier := *tierF
	if tier == "" {
		tier = envOr("VERIF_TIER", "quick")
	}
	seed, _ := strconv.Atoi(os.Getenv("VERIF_SEED"))
	t0 := time.Now()
	reg := loadRegistry()
	var obs []*Oblig
	for i := range reg.Obligations {
		o := &reg.Obligations[i]
		if o.Property != prop {
			continue
		}
		if *only != "" && !strings.Contains(","+*only+",", ","+o.ID+",") {
			continue
		}
		if tc, ok := o.Tiers[tier]; ok && tc.Skip {
			continue
		}
		if _, ok := o.Tiers[tier]; !ok && tier == "quick" {
			if _, ok2 := o.Tiers["thorough"]; ok2 {
				continue // thorough-only obligation
			}
		}
		obs = append(obs, o)
	}
	if len(obs) == 0 {
		fatal("no obligations registered for %s", prop)
	}
	self, _ := os.Executable()
	results := make([]*ObligResult, len(obs))
	sem := make(chan struct{}, *par)
	var wg sync.WaitGroup
	tmpd, _ := os.MkdirTemp("", "vcheck-run-")
	defer os.RemoveAll(tmpd)
	for i, o := range obs {
		wg.Add(1)
		go func(i int, o *Oblig) {
			defer wg.Done()
			sem <- struct{}{}
			defer func() { <-sem }()
			outp := filepath.Join(tmpd, o.ID+".json")
			tc := tierOf(o, tier)
			cmd := exec.Command(self, "oblig", o.ID, "--tier", tier, "--out", outp)
			var stderr bytes.Buffer
			cmd.Stderr = &stderr
			cmd.Stdout = &stderr
			done := make(chan error, 1)
			cmd.Start()
			go func() { done <- cmd.Wait() }()
			var r ObligResult
			select {
			case <-done:
			case <-time.After(time.Duration(tc.TimeoutS+120) * time.Second):
				cmd.Process.Kill()
				r = ObligResult{ID: o.ID, Property: o.Property, Tier: tier, Status: "inconclusive", Inconclusive: []string{"worker timed out"}}
				results[i] = &r
				return
			}
			b, err := os.ReadFile(outp)
			if err != nil || json.Unmarshal(b, &r) != nil {
				r = ObligResult{ID: o.ID, Property: o.Property, Tier: tier, Status: "error", Error: "worker produced no result: " + lastLines(stderr.String(), 15)}
				if strings.Contains(stderr.String(), "(harness out of date with the tree)") {
					// a registry rename / rewrite no longer finds its anchor in the source
					r.Status = "skipped"
				}
			}
			results[i] = &r
		}(i, o)
	}
	wg.Wait()

	// aggregate
	known := loadKnown()
	exit := 0
	var lines []string
	viol := 0
	agg := map[string]interface{}{}
	var states, transitions, obligations, discharged, queries, nsat, nunsat, nunk, validated int
	var solverS float64
	var samples []interface{}
	var assumptions []string
	var perOb []interface{}
	var skipped []string
	nOK := 0
	funcs := map[string]bool{}
	stubs := map[string]int{}
	knownMatched := map[string]int{}
	inconcl := []string{}
	for _, r := range results {
		states += r.Paths
		transitions += r.Decisions
		obligations += r.Asserts
		discharged += r.Discharged
		queries += r.Queries + r.AltQueries
		nsat += r.Sat
		nunsat += r.Unsat
		nunk += r.Unknown
		solverS += r.SolverS + r.AltSolverS
		validated += r.NativeReplays + r.Validated
		for _, f := range r.Funcs {
			funcs[f] = true
		}
		for k, v := range r.Stubs {
			stubs[k] += v
		}
		for k, v := range r.KnownHit {
			knownMatched[k] += v
		}
		for _, s := range r.Samples {
			if len(samples) < 12 {
				samples = append(samples, map[string]string{"obligation": r.ID, "path": s})
			}
		}
		for _, a := range r.Assumes {
			assumptions = append(assumptions, r.ID+": "+a)
		}
		po := map[string]interface{}{"id": r.ID, "status": r.Status, "paths": r.Paths, "paths_infeasible": r.PathsInfeas, "decisions": r.Decisions, "asserts": r.Asserts,
			"discharged": r.Discharged, "queries": r.Queries + r.AltQueries, "solver_s": round3(r.SolverS + r.AltSolverS), "wall_s": round3(r.WallS), "load_s": round3(r.LoadS),
			"ssa_steps": r.Steps, "bounds": r.Bounds, "params": r.Params, "desc": r.Desc, "reach": r.Reach}
		if r.Error != "" {
			po["error"] = r.Error
		}
		if len(r.Inconclusive) > 0 {
			po["inconclusive"] = r.Inconclusive
		}
		perOb = append(perOb, po)
		switch r.Status {
		case "ok":
			nOK++
		case "skipped":
			skipped = append(skipped, r.ID+": "+r.Error)
			lines = append(lines, fmt.Sprintf("SKIPPED property=%s obligation=%s %s", prop, r.ID, trunc(r.Error, 600)))
		case "violation":
			for i, v := range r.Violations {
				if v.Known != "" {
					continue
				}
				viol++
				rp := ""
				for _, f := range r.ReplayFiles {
					rp = f
					_ = i
				}
				if len(r.ReplayFiles) > 0 {
					rp = r.ReplayFiles[0]
				}
				lines = append(lines, fmt.Sprintf("VIOLATION property=%s replay=%s obligation=%s kind=%s label=%s msg=%q", prop, rp, r.ID, v.Kind, v.Label, trunc(v.Msg, 200)))
			}
			exit = 1
		default:
			if exit == 0 {
				exit = 2
			}
			msg := r.Error
			if msg == "" {
				msg = strings.Join(r.Inconclusive, "; ")
			}
			inconcl = append(inconcl, r.ID+": "+msg)
			lines = append(lines, fmt.Sprintf("INCONCLUSIVE property=%s obligation=%s %s", prop, r.ID, trunc(msg, 600)))
		}
	}
	if len(skipped) > 0 && exit == 0 && nOK == 0 {
		// nothing of this property could be decided on this tree
		exit = 2
	}
	for _, k := range known {
		if k.Property != prop || k.Status != "known" {
			continue
		}
		relevant := false
		for _, r := range results {
			if k.Obligation == "" || k.Obligation == r.ID {
				relevant = true
			}
		}
		if !relevant {
			continue
		}
		if knownMatched[k.ID] > 0 {
			lines = append(lines, fmt.Sprintf("KNOWN-FINDING: property=%s %s [%s] (reproduced on %d path(s))", prop, k.What, k.ID, knownMatched[k.ID]))
		} else {
			lines = append(lines, fmt.Sprintf("NOTE: listed known finding %s did not reproduce in this run (tier %s)", k.ID, tier))
		}
	}
	for _, l := range lines {
		fmt.Println(l)
	}
	var fl []string
	for f := range funcs {
		fl = append(fl, f)
	}
	sort.Strings(fl)
	agg["states"] = states
	agg["transitions"] = transitions
	agg["traces_validated_against_impl"] = validated
	agg["samples"] = samples
	agg["obligations"] = obligations
	agg["discharged"] = discharged
	agg["queries"] = queries
	agg["sat"] = nsat
	agg["unsat"] = nunsat
	agg["unknown"] = nunk
	agg["solver_time_s"] = round3(solverS)
	agg["functions_encoded"] = fl
	agg["stubs"] = stubs
	agg["per_obligation"] = perOb
	agg["known_findings_matched"] = knownMatched
	agg["inconclusive"] = inconcl
	agg["skipped_harness_out_of_date"] = skipped
	if len(skipped) > 0 {
		assumptions = append(assumptions, fmt.Sprintf("%d obligation(s) were NOT decided on this tree because their harness no longer builds against it (the tree itself builds): %s", len(skipped), strings.Join(skipped, " | ")))
	}
	agg["exhaustive"] = false
	agg["explanation"] = "states = symbolic paths completed (each decided by the SMT solver for all inputs on that path); transitions = branch/choice/concretisation decisions; obligations = assertions reached; discharged = assertions proved unsat-negation within the stated bounds"
	if states == 0 {
		states = 1
		agg["states"] = 1
	}
	if transitions == 0 {
		agg["transitions"] = 1
	}
	if len(samples) == 0 {
		agg["samples"] = []interface{}{"(no path completed)"}
	}
	ev := map[string]interface{}{
		"property_id": prop, "tier": tier, "seed": seed, "level": "model_checking", "coverage": agg,
		"assumptions": assumptions, "wall_s": round3(time.Since(t0).Seconds()), "violations": viol,
	}
	b, _ := json.MarshalIndent(ev, "", " ")
	os.MkdirAll(filepath.Join(verifDir, "evidence"), 0o755)
	os.WriteFile(filepath.Join(verifDir, "evidence", prop+".json"), b, 0o644)
	fmt.Printf("%s tier=%s obligations=%d skipped=%d paths=%d asserts=%d discharged=%d queries=%d solver=%.1fs wall=%.1fs exit=%d\n", prop, tier, len(results), len(skipped), states, obligations, discharged, queries, solverS, time.Since(t0).Seconds(), exit)
	os.Exit(exit)
}

func round3(f float64) float64 { return float64(int(f*1000)) / 1000 }

func trunc(s string, n int) string {
	s = strings.ReplaceAll(s, "\n", " ")
	if len(s) > n {
		return s[:n] + "…"
	}
	return s
}
