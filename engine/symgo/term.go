package symgo

// SMT terms: hash-consed bit-vector / Bool DAG with constant folding, a concrete
// evaluator (used for model-guided branch selection and replay) and an SMT-LIB2 printer.

import (
	"fmt"
	"strings"
	"sync"
)

type Op uint8

const (
	OpConst Op = iota // bit-vector constant; W bits, value K
	OpVar             // variable; Name; W==0 => Bool
	OpTrue
	OpFalse
	OpNot
	OpAnd
	OpOr
	OpIte
	OpEq
	OpAdd
	OpSub
	OpMul
	OpUDiv
	OpURem
	OpSDiv
	OpSRem
	OpBvAnd
	OpBvOr
	OpBvXor
	OpBvNot
	OpNeg
	OpShl
	OpLShr
	OpAShr
	OpUlt
	OpUle
	OpSlt
	OpSle
	OpZExt    // to W bits
	OpSExt    // to W bits
	OpExtract // K = hi<<8 | lo
	OpConcat
	OpUF // uninterpreted function application; Name; result W (0 => Bool)
)

var opNames = map[Op]string{
	OpNot: "not", OpAnd: "and", OpOr: "or", OpIte: "ite", OpEq: "=",
	OpAdd: "bvadd", OpSub: "bvsub", OpMul: "bvmul", OpUDiv: "bvudiv", OpURem: "bvurem",
	OpSDiv: "bvsdiv", OpSRem: "bvsrem", OpBvAnd: "bvand", OpBvOr: "bvor", OpBvXor: "bvxor",
	OpBvNot: "bvnot", OpNeg: "bvneg", OpShl: "bvshl", OpLShr: "bvlshr", OpAShr: "bvashr",
	OpUlt: "bvult", OpUle: "bvule", OpSlt: "bvslt", OpSle: "bvsle", OpConcat: "concat",
}

type Term struct {
	ID   int
	Op   Op
	W    uint8 // result width in bits, 0 = Bool
	K    uint64
	Name string
	Args []*Term
}

var (
	internMu  sync.Mutex
	internTab = map[string]*Term{}
	termSeq   int
	ufDecls   = map[string]string{} // name -> declaration
	varDecls  = map[string]uint8{}  // name -> width
	declOrder []string
)

func mask(w uint8) uint64 {
	if w >= 64 {
		return ^uint64(0)
	}
	return (uint64(1) << w) - 1
}

func intern(op Op, w uint8, k uint64, name string, args ...*Term) *Term {
	var sb strings.Builder
	fmt.Fprintf(&sb, "%d:%d:%d:%s", op, w, k, name)
	for _, a := range args {
		fmt.Fprintf(&sb, ":%d", a.ID)
	}
	key := sb.String()
	internMu.Lock()
	defer internMu.Unlock()
	if t, ok := internTab[key]; ok {
		return t
	}
	termSeq++
	t := &Term{ID: termSeq, Op: op, W: w, K: k, Name: name, Args: append([]*Term(nil), args...)}
	internTab[key] = t
	return t
}

var (
	tTrue  = intern(OpTrue, 0, 0, "")
	tFalse = intern(OpFalse, 0, 0, "")
)

func mkBool(b bool) *Term {
	if b {
		return tTrue
	}
	return tFalse
}

func mkConst(w uint8, v uint64) *Term { return intern(OpConst, w, v&mask(w), "") }

func mkVar(name string, w uint8) *Term {
	internMu.Lock()
	if _, ok := varDecls[name]; !ok {
		varDecls[name] = w
		declOrder = append(declOrder, "v:"+name)
	}
	internMu.Unlock()
	return intern(OpVar, w, 0, name)
}

func mkUF(name string, w uint8, args ...*Term) *Term {
	internMu.Lock()
	if _, ok := ufDecls[name]; !ok {
		var sb strings.Builder
		fmt.Fprintf(&sb, "(declare-fun %s (", smtName(name))
		for i, a := range args {
			if i > 0 {
				sb.WriteByte(' ')
			}
			sb.WriteString(sortOf(a.W))
		}
		fmt.Fprintf(&sb, ") %s)", sortOf(w))
		ufDecls[name] = sb.String()
		declOrder = append(declOrder, "f:"+name)
	}
	internMu.Unlock()
	return intern(OpUF, w, 0, name, args...)
}

func (t *Term) IsConst() bool { return t.Op == OpConst || t.Op == OpTrue || t.Op == OpFalse }

func (t *Term) ConstVal() uint64 {
	switch t.Op {
	case OpConst:
		return t.K
	case OpTrue:
		return 1
	}
	return 0
}

func sext64(v uint64, w uint8) int64 {
	if w >= 64 {
		return int64(v)
	}
	sh := 64 - w
	return int64(v<<sh) >> sh
}

// evalOp computes op over concrete argument values (already masked).
func evalOp(op Op, w uint8, k uint64, aw uint8, a []uint64) uint64 {
	b2u := func(b bool) uint64 {
		if b {
			return 1
		}
		return 0
	}
	switch op {
	case OpNot:
		return a[0] ^ 1
	case OpAnd:
		r := uint64(1)
		for _, x := range a {
			r &= x
		}
		return r
	case OpOr:
		r := uint64(0)
		for _, x := range a {
			r |= x
		}
		return r
	case OpIte:
		if a[0] != 0 {
			return a[1]
		}
		return a[2]
	case OpEq:
		return b2u(a[0] == a[1])
	case OpAdd:
		return (a[0] + a[1]) & mask(w)
	case OpSub:
		return (a[0] - a[1]) & mask(w)
	case OpMul:
		return (a[0] * a[1]) & mask(w)
	case OpUDiv:
		if a[1] == 0 {
			return mask(w)
		}
		return a[0] / a[1]
	case OpURem:
		if a[1] == 0 {
			return a[0]
		}
		return a[0] % a[1]
	case OpSDiv:
		x, y := sext64(a[0], w), sext64(a[1], w)
		if y == 0 {
			if x < 0 {
				return 1
			}
			return mask(w)
		}
		if y == -1 {
			return uint64(-x) & mask(w)
		}
		return uint64(x/y) & mask(w)
	case OpSRem:
		x, y := sext64(a[0], w), sext64(a[1], w)
		if y == 0 {
			return a[0]
		}
		if y == -1 {
			return 0
		}
		return uint64(x%y) & mask(w)
	case OpBvAnd:
		return a[0] & a[1]
	case OpBvOr:
		return a[0] | a[1]
	case OpBvXor:
		return a[0] ^ a[1]
	case OpBvNot:
		return ^a[0] & mask(w)
	case OpNeg:
		return (-a[0]) & mask(w)
	case OpShl:
		if a[1] >= uint64(w) {
			return 0
		}
		return (a[0] << a[1]) & mask(w)
	case OpLShr:
		if a[1] >= uint64(w) {
			return 0
		}
		return a[0] >> a[1]
	case OpAShr:
		x := sext64(a[0], w)
		s := a[1]
		if s >= uint64(w) {
			s = uint64(w) - 1
		}
		return uint64(x>>s) & mask(w)
	case OpUlt:
		return b2u(a[0] < a[1])
	case OpUle:
		return b2u(a[0] <= a[1])
	case OpSlt:
		return b2u(sext64(a[0], aw) < sext64(a[1], aw))
	case OpSle:
		return b2u(sext64(a[0], aw) <= sext64(a[1], aw))
	case OpZExt:
		return a[0]
	case OpSExt:
		return uint64(sext64(a[0], aw)) & mask(w)
	case OpExtract:
		hi, lo := uint8(k>>8), uint8(k&0xff)
		return (a[0] >> lo) & mask(hi-lo+1)
	case OpConcat:
		// a[0] high, a[1] low; low width = w - aw
		return ((a[0] << (w - aw)) | a[1]) & mask(w)
	}
	panic(fmt.Sprintf("evalOp: bad op %d", op))
}

// mk builds op(args) with folding and light simplification.
func mk(op Op, w uint8, k uint64, args ...*Term) *Term {
	allc := true
	for _, a := range args {
		if !a.IsConst() {
			allc = false
			break
		}
	}
	if allc && op != OpUF {
		vs := make([]uint64, len(args))
		for i, a := range args {
			vs[i] = a.ConstVal()
		}
		aw := uint8(0)
		if len(args) > 0 {
			aw = args[0].W
		}
		r := evalOp(op, w, k, aw, vs)
		if w == 0 {
			return mkBool(r != 0)
		}
		return mkConst(w, r)
	}
	switch op {
	case OpNot:
		x := args[0]
		if x.Op == OpNot {
			return x.Args[0]
		}
	case OpAnd:
		var out []*Term
		for _, a := range args {
			if a == tFalse {
				return tFalse
			}
			if a == tTrue {
				continue
			}
			if a.Op == OpAnd {
				out = append(out, a.Args...)
				continue
			}
			out = append(out, a)
		}
		out = dedup(out)
		if len(out) == 0 {
			return tTrue
		}
		if len(out) == 1 {
			return out[0]
		}
		return intern(OpAnd, 0, 0, "", out...)
	case OpOr:
		var out []*Term
		for _, a := range args {
			if a == tTrue {
				return tTrue
			}
			if a == tFalse {
				continue
			}
			if a.Op == OpOr {
				out = append(out, a.Args...)
				continue
			}
			out = append(out, a)
		}
		out = dedup(out)
		if len(out) == 0 {
			return tFalse
		}
		if len(out) == 1 {
			return out[0]
		}
		return intern(OpOr, 0, 0, "", out...)
	case OpIte:
		c, a, b := args[0], args[1], args[2]
		if c == tTrue {
			return a
		}
		if c == tFalse {
			return b
		}
		if a == b {
			return a
		}
		if w == 0 {
			if a == tTrue && b == tFalse {
				return c
			}
			if a == tFalse && b == tTrue {
				return mk(OpNot, 0, 0, c)
			}
		}
	case OpEq:
		if args[0] == args[1] {
			return tTrue
		}
		// canonical order: constant on the right
		if args[0].IsConst() && !args[1].IsConst() {
			args = []*Term{args[1], args[0]}
		}
		// zext(x) == c  where c does not fit => false; fits => x == trunc(c)
		if args[0].Op == OpZExt && args[1].Op == OpConst {
			x := args[0].Args[0]
			if args[1].K > mask(x.W) {
				return tFalse
			}
			return mk(OpEq, 0, 0, x, mkConst(x.W, args[1].K))
		}
		if args[0].W == 0 { // bool equality
			if args[1] == tTrue {
				return args[0]
			}
			if args[1] == tFalse {
				return mk(OpNot, 0, 0, args[0])
			}
		}
	case OpAdd, OpBvOr, OpBvXor:
		if args[0].Op == OpConst && args[0].K == 0 {
			return args[1]
		}
		if args[1].Op == OpConst && args[1].K == 0 {
			return args[0]
		}
	case OpSub:
		if args[1].Op == OpConst && args[1].K == 0 {
			return args[0]
		}
		if args[0] == args[1] {
			return mkConst(w, 0)
		}
	case OpMul:
		for i := 0; i < 2; i++ {
			if args[i].Op == OpConst && args[i].K == 0 {
				return mkConst(w, 0)
			}
			if args[i].Op == OpConst && args[i].K == 1 {
				return args[1-i]
			}
		}
	case OpBvAnd:
		for i := 0; i < 2; i++ {
			if args[i].Op == OpConst && args[i].K == 0 {
				return mkConst(w, 0)
			}
			if args[i].Op == OpConst && args[i].K == mask(w) {
				return args[1-i]
			}
		}
		if args[0] == args[1] {
			return args[0]
		}
		// zext(x) & c where c covers all of x's bits
		for i := 0; i < 2; i++ {
			if args[i].Op == OpConst && args[1-i].Op == OpZExt {
				xw := args[1-i].Args[0].W
				if args[i].K&mask(xw) == mask(xw) {
					return args[1-i]
				}
			}
		}
	case OpShl, OpLShr, OpAShr:
		if args[1].Op == OpConst && args[1].K == 0 {
			return args[0]
		}
		if args[1].Op == OpConst && args[1].K >= uint64(w) && op != OpAShr {
			return mkConst(w, 0)
		}
		// (zext x) >> c with c >= width(x) => 0
		if op == OpLShr && args[1].Op == OpConst && args[0].Op == OpZExt && args[1].K >= uint64(args[0].Args[0].W) {
			return mkConst(w, 0)
		}
	case OpZExt, OpSExt:
		x := args[0]
		if x.W == w {
			return x
		}
		if x.Op == OpZExt { // zext(zext x) / sext(zext x) = zext x
			return mk(OpZExt, w, 0, x.Args[0])
		}
		if op == OpSExt && x.Op == OpSExt {
			return mk(OpSExt, w, 0, x.Args[0])
		}
	case OpExtract:
		x := args[0]
		hi, lo := uint8(k>>8), uint8(k&0xff)
		if lo == 0 && hi == x.W-1 {
			return x
		}
		if (x.Op == OpZExt || x.Op == OpSExt) && hi < x.Args[0].W {
			return mk(OpExtract, w, k, x.Args[0])
		}
		if x.Op == OpZExt && lo >= x.Args[0].W {
			return mkConst(w, 0)
		}
		if x.Op == OpConcat {
			lw := x.Args[1].W
			if hi < lw {
				return mk(OpExtract, w, k, x.Args[1])
			}
			if lo >= lw {
				return mk(OpExtract, w, uint64(hi-lw)<<8|uint64(lo-lw), x.Args[0])
			}
		}
		if x.Op == OpExtract {
			lo0 := uint8(x.K & 0xff)
			return mk(OpExtract, w, uint64(hi+lo0)<<8|uint64(lo+lo0), x.Args[0])
		}
	case OpUlt:
		if args[0] == args[1] {
			return tFalse
		}
		if args[1].Op == OpConst && args[1].K == 0 {
			return tFalse
		}
		// zext(x) < c with c > max(x) => true
		if args[0].Op == OpZExt && args[1].Op == OpConst && args[1].K > mask(args[0].Args[0].W) {
			return tTrue
		}
	case OpUle:
		if args[0] == args[1] {
			return tTrue
		}
		if args[0].Op == OpConst && args[0].K == 0 {
			return tTrue
		}
		if args[0].Op == OpZExt && args[1].Op == OpConst && args[1].K >= mask(args[0].Args[0].W) {
			return tTrue
		}
	case OpSlt:
		if args[0] == args[1] {
			return tFalse
		}
	case OpSle:
		if args[0] == args[1] {
			return tTrue
		}
	}
	return intern(op, w, k, "", args...)
}

func dedup(ts []*Term) []*Term {
	seen := map[int]bool{}
	out := ts[:0:0]
	for _, t := range ts {
		if !seen[t.ID] {
			seen[t.ID] = true
			out = append(out, t)
		}
	}
	return out
}

// convenience constructors
func tNot(a *Term) *Term        { return mk(OpNot, 0, 0, a) }
func tAnd(a ...*Term) *Term     { return mk(OpAnd, 0, 0, a...) }
func tOr(a ...*Term) *Term      { return mk(OpOr, 0, 0, a...) }
func tEq(a, b *Term) *Term      { return mk(OpEq, 0, 0, a, b) }
func tIte(c, a, b *Term) *Term  { return mk(OpIte, a.W, 0, c, a, b) }
func tBin(op Op, a, b *Term) *Term {
	w := a.W
	switch op {
	case OpUlt, OpUle, OpSlt, OpSle, OpEq:
		w = 0
	}
	return mk(op, w, 0, a, b)
}
func tExtract(x *Term, hi, lo uint8) *Term {
	return mk(OpExtract, hi-lo+1, uint64(hi)<<8|uint64(lo), x)
}
func tConcat(hi, lo *Term) *Term { return mk(OpConcat, hi.W+lo.W, 0, hi, lo) }

// tResize converts x to width w (truncate, or extend by sign if signed).
func tResize(x *Term, w uint8, signed bool) *Term {
	if x.W == w {
		return x
	}
	if x.W > w {
		return tExtract(x, w-1, 0)
	}
	if signed {
		return mk(OpSExt, w, 0, x)
	}
	return mk(OpZExt, w, 0, x)
}

// ---------------------------------------------------------------------------
// Models and evaluation

type Model struct {
	Vars map[string]uint64
	UF   map[string]map[string]uint64 // name -> argkey -> value
}

func NewModel() *Model {
	return &Model{Vars: map[string]uint64{}, UF: map[string]map[string]uint64{}}
}

func (m *Model) Clone() *Model {
	n := NewModel()
	for k, v := range m.Vars {
		n.Vars[k] = v
	}
	for k, t := range m.UF {
		nt := make(map[string]uint64, len(t))
		for a, v := range t {
			nt[a] = v
		}
		n.UF[k] = nt
	}
	return n
}

func argKey(vs []uint64) string {
	var sb strings.Builder
	for i, v := range vs {
		if i > 0 {
			sb.WriteByte(',')
		}
		fmt.Fprintf(&sb, "%d", v)
	}
	return sb.String()
}

// Eval evaluates t under m. Unassigned variables / UF points default to 0 and are
// recorded in m so that later evaluations stay consistent.
func (m *Model) Eval(t *Term) uint64 {
	memo := map[*Term]uint64{}
	return m.eval(t, memo)
}

func (m *Model) eval(t *Term, memo map[*Term]uint64) uint64 {
	switch t.Op {
	case OpConst:
		return t.K
	case OpTrue:
		return 1
	case OpFalse:
		return 0
	case OpVar:
		v, ok := m.Vars[t.Name]
		if !ok {
			m.Vars[t.Name] = 0
		}
		return v & func() uint64 {
			if t.W == 0 {
				return 1
			}
			return mask(t.W)
		}()
	}
	if v, ok := memo[t]; ok {
		return v
	}
	vs := make([]uint64, len(t.Args))
	// short-circuit ite to avoid evaluating huge dead branches
	if t.Op == OpIte {
		c := m.eval(t.Args[0], memo)
		var r uint64
		if c != 0 {
			r = m.eval(t.Args[1], memo)
		} else {
			r = m.eval(t.Args[2], memo)
		}
		memo[t] = r
		return r
	}
	for i, a := range t.Args {
		vs[i] = m.eval(a, memo)
	}
	var r uint64
	if t.Op == OpUF {
		tab := m.UF[t.Name]
		if tab == nil {
			tab = map[string]uint64{}
			m.UF[t.Name] = tab
		}
		k := argKey(vs)
		v, ok := tab[k]
		if !ok {
			tab[k] = 0
		}
		r = v
	} else {
		aw := uint8(0)
		if len(t.Args) > 0 {
			aw = t.Args[0].W
		}
		r = evalOp(t.Op, t.W, t.K, aw, vs)
	}
	memo[t] = r
	return r
}

// ---------------------------------------------------------------------------
// SMT-LIB printing

func sortOf(w uint8) string {
	if w == 0 {
		return "Bool"
	}
	return fmt.Sprintf("(_ BitVec %d)", w)
}

func smtName(n string) string { return "|" + strings.ReplaceAll(n, "|", "_") + "|" }

// ref returns the SMT text that refers to t (leaf text, or its definition name).
func (t *Term) ref() string {
	switch t.Op {
	case OpConst:
		return fmt.Sprintf("(_ bv%d %d)", t.K, t.W)
	case OpTrue:
		return "true"
	case OpFalse:
		return "false"
	case OpVar:
		return smtName(t.Name)
	}
	return fmt.Sprintf("t%d", t.ID)
}

// body returns the SMT expression of a non-leaf term in terms of refs of its children.
func (t *Term) body() string {
	var sb strings.Builder
	switch t.Op {
	case OpZExt:
		fmt.Fprintf(&sb, "((_ zero_extend %d) %s)", t.W-t.Args[0].W, t.Args[0].ref())
	case OpSExt:
		fmt.Fprintf(&sb, "((_ sign_extend %d) %s)", t.W-t.Args[0].W, t.Args[0].ref())
	case OpExtract:
		fmt.Fprintf(&sb, "((_ extract %d %d) %s)", t.K>>8, t.K&0xff, t.Args[0].ref())
	case OpUF:
		if len(t.Args) == 0 {
			return smtName(t.Name)
		}
		fmt.Fprintf(&sb, "(%s", smtName(t.Name))
		for _, a := range t.Args {
			sb.WriteByte(' ')
			sb.WriteString(a.ref())
		}
		sb.WriteByte(')')
	default:
		fmt.Fprintf(&sb, "(%s", opNames[t.Op])
		for _, a := range t.Args {
			sb.WriteByte(' ')
			sb.WriteString(a.ref())
		}
		sb.WriteByte(')')
	}
	return sb.String()
}

// String renders a term as a (possibly large) plain expression, for samples/debugging.
func (t *Term) String() string {
	return t.str(0)
}

func (t *Term) str(depth int) string {
	switch t.Op {
	case OpConst:
		return fmt.Sprintf("%d", t.K)
	case OpTrue:
		return "true"
	case OpFalse:
		return "false"
	case OpVar:
		return t.Name
	}
	if depth > 6 {
		return fmt.Sprintf("t%d", t.ID)
	}
	var sb strings.Builder
	switch t.Op {
	case OpZExt:
		fmt.Fprintf(&sb, "zext%d(%s)", t.W, t.Args[0].str(depth+1))
	case OpSExt:
		fmt.Fprintf(&sb, "sext%d(%s)", t.W, t.Args[0].str(depth+1))
	case OpExtract:
		fmt.Fprintf(&sb, "%s[%d:%d]", t.Args[0].str(depth+1), t.K>>8, t.K&0xff)
	case OpUF:
		fmt.Fprintf(&sb, "%s(", t.Name)
		for i, a := range t.Args {
			if i > 0 {
				sb.WriteByte(',')
			}
			sb.WriteString(a.str(depth + 1))
		}
		sb.WriteByte(')')
	default:
		fmt.Fprintf(&sb, "(%s", opNames[t.Op])
		for _, a := range t.Args {
			sb.WriteByte(' ')
			sb.WriteString(a.str(depth + 1))
		}
		sb.WriteByte(')')
	}
	return sb.String()
}

// hasOp reports whether the DAG under t contains one of ops.
func hasOp(t *Term, seen map[*Term]bool, ops ...Op) bool {
	if seen[t] {
		return false
	}
	seen[t] = true
	for _, o := range ops {
		if t.Op == o {
			// only count "hard" instances: non-constant divisor/multiplier irrelevant here
			return true
		}
	}
	for _, a := range t.Args {
		if hasOp(a, seen, ops...) {
			return true
		}
	}
	return false
}
