package symgo

// Controlled scheduler: goroutines of the target run as Go goroutines holding a baton; exactly
// one runs at a time. Every synchronisation operation is a yield point at which the next
// goroutine to run is a decision of the explorer, so all interleavings at synchronisation
// granularity are explored (with symbolic data).

import (
	"fmt"
	"go/token"
	"go/types"
	"strings"

	"golang.org/x/tools/go/ssa"
)

type gorKill struct{}

type gor struct {
	id      int
	wake    chan struct{}
	done    bool
	blocked func() bool // non-nil: goroutine waits until blocked() returns true
	why     string
	name    string
	pend    []interface{} // synchronisation objects touched by the operation this goroutine is about to perform
}

type scheduler struct {
	gs       []*gor
	cur      *gor
	killed   bool
	abort    interface{} // panic value raised in a non-main goroutine, to be re-raised on main
	yields   int
	switches int
	sleep    map[int]bool // sleep set (partial-order reduction)
}

var sched *scheduler

func newScheduler() *scheduler {
	s := &scheduler{sleep: map[int]bool{}}
	main := &gor{id: 0, wake: make(chan struct{}, 1), name: "main"}
	s.gs = []*gor{main}
	s.cur = main
	return s
}

func curG(fr *frame) *gor {
	if fr != nil && fr.g != nil {
		return fr.g
	}
	return sched.cur
}

// enabled returns the goroutines that can run now.
func (s *scheduler) enabled() []*gor {
	var out []*gor
	for _, g := range s.gs {
		if g.done {
			continue
		}
		if g.blocked != nil && !g.blocked() {
			continue
		}
		out = append(out, g)
	}
	return out
}

// commuting marks an operation that commutes with other commuting operations on the same
// object (WaitGroup.Done/Add among themselves, read-lock operations among themselves).
type commuting struct{ obj interface{} }

func dependent(a, b []interface{}) bool {
	for _, x := range a {
		cx, xc := x.(commuting)
		if xc {
			x = cx.obj
		}
		for _, y := range b {
			cy, yc := y.(commuting)
			if yc {
				y = cy.obj
			}
			if x == y && !(xc && yc) {
				return true
			}
		}
	}
	return false
}

func (s *scheduler) describeBlocked() string {
	var sb strings.Builder
	for _, x := range s.gs {
		if !x.done {
			fmt.Fprintf(&sb, "[g%d %s blocked on %s] ", x.id, x.name, x.why)
		}
	}
	return sb.String()
}

// pick decides which goroutine runs next (cur is the goroutine asking, nil if it has exited).
// Every operation at a yield point touches exactly the objects in gor.pend; operations on
// disjoint objects commute (data-race freedom between yield points is assumed), so sleep sets
// prune interleavings that differ only in the order of independent operations.
func (s *scheduler) pick(cur *gor) *gor {
	en := s.enabled()
	if len(en) == 0 {
		EX.recordViolation("deadlock", "deadlock", "all goroutines blocked: "+s.describeBlocked(), "", EX.curModel())
		panic(pathAbort{"violation", "deadlock"})
	}
	var cands []*gor
	for _, x := range en {
		if !s.sleep[x.id] {
			cands = append(cands, x)
		}
	}
	if len(cands) == 0 {
		panic(pathAbort{"pruned", "sleep-set blocked (equivalent interleaving explored elsewhere)"})
	}
	// deterministic order: the asking goroutine first
	for i, x := range cands {
		if x == cur {
			cands[0], cands[i] = cands[i], cands[0]
			break
		}
	}
	var next *gor
	if EX.Lim.MaxSwitches > 0 && s.switches >= EX.Lim.MaxSwitches && cands[0] == cur {
		next = cur // preemption bound used up
	} else if len(cands) == 1 {
		next = cands[0]
	} else {
		idx, payload := EX.ChooseP(len(cands), "sched", func(i int) []int {
			var ids []int
			for _, x := range cands[:i] {
				ids = append(ids, x.id)
			}
			return ids
		})
		next = cands[idx]
		for _, id := range payload {
			s.sleep[id] = true
		}
		if cands[0] == cur && next != cur {
			s.switches++
		}
	}
	for id := range s.sleep {
		if dependent(s.gs[id].pend, next.pend) {
			delete(s.sleep, id)
		}
	}
	return next
}

// yield is called by the running goroutine g right before a synchronisation operation on objs.
func (s *scheduler) yield(g *gor, why string, objs ...interface{}) {
	if s.killed {
		panic(gorKill{})
	}
	s.yields++
	g.pend = objs
	next := s.pick(g)
	if next == g {
		g.blocked = nil
		return
	}
	s.cur = next
	next.wake <- struct{}{}
	s.park(g)
}

// park blocks the calling (real) goroutine until it is scheduled again.
func (s *scheduler) park(g *gor) {
	<-g.wake
	if s.killed {
		panic(gorKill{})
	}
	if g.id == 0 && s.abort != nil {
		a := s.abort
		s.abort = nil
		panic(a)
	}
	g.blocked = nil
	s.cur = g
}

// touch records that the running goroutine has just had an effect on objs outside a yield
// (e.g. registering as a waiter): sleeping goroutines whose pending operation depends on
// those objects must be woken (sleep-set invariant).
func (s *scheduler) touch(objs ...interface{}) {
	for id := range s.sleep {
		if dependent(s.gs[id].pend, objs) {
			delete(s.sleep, id)
		}
	}
}

// block makes g wait until cond holds (cond is evaluated by the scheduler).
func (s *scheduler) block(g *gor, why string, cond func() bool, objs ...interface{}) {
	s.touch(objs...)
	g.blocked = cond
	g.why = why
	s.yield(g, why, objs...)
	g.why = ""
}

// exit is called when goroutine g has finished: pass the baton.
func (s *scheduler) exit(g *gor) {
	g.done = true
	delete(s.sleep, g.id)
	if s.killed {
		s.ack()
		return
	}
	toMain := func() {
		m := s.gs[0]
		s.cur = m
		m.blocked = nil
		m.wake <- struct{}{}
	}
	if s.abort != nil {
		toMain()
		return
	}
	var next *gor
	func() {
		defer func() {
			if r := recover(); r != nil {
				s.abort = r
			}
		}()
		next = s.pick(nil)
	}()
	if s.abort != nil || next == nil {
		toMain()
		return
	}
	s.cur = next
	next.wake <- struct{}{}
}

func (s *scheduler) startGor(g *gor, body func()) {
	go func() {
		<-g.wake
		if s.killed {
			g.done = true
			s.ack()
			return
		}
		s.cur = g
		func() {
			defer func() {
				if r := recover(); r != nil {
					if _, ok := r.(gorKill); ok {
						return
					}
					// a panic escaping a goroutine ends the path: hand it to main
					if s.abort == nil {
						s.abort = r
					}
				}
			}()
			body()
		}()
		s.exit(g)
	}()
}

func spawn(fr *frame, pos token.Pos, fn value, args []value) {
	s := sched
	g := &gor{id: len(s.gs), wake: make(chan struct{}, 1)}
	if f, ok := fn.(*ssa.Function); ok {
		g.name = f.String()
	} else if c, ok := fn.(*closure); ok {
		g.name = c.Fn.String()
	}
	s.gs = append(s.gs, g)
	race.fork(curG(fr), g)
	i := fr.i
	s.startGor(g, func() {
		root := &frame{i: i, g: g}
		callIn(i, root, pos, fn, args)
	})
	// no yield here: the new goroutine becomes runnable and can be chosen at the spawner's
	// next synchronisation point (invisible local steps commute with it).
}

// spawnEngine starts an engine-level pseudo goroutine (timer etc.).
func spawnEngine(fr *frame, name string, body func(g *gor)) {
	s := sched
	g := &gor{id: len(s.gs), wake: make(chan struct{}, 1), name: name}
	s.gs = append(s.gs, g)
	race.fork(curG(fr), g)
	s.startGor(g, func() { body(g) })
}

// callIn runs fn on a fresh goroutine root frame.
func callIn(i *interpreter, root *frame, pos token.Pos, fn value, args []value) {
	switch fn := fn.(type) {
	case *ssa.Function:
		callSSA(i, root, pos, fn, args, nil)
	case *closure:
		callSSA(i, root, pos, fn.Fn, args, fn.Env)
	case *ssa.Builtin:
		callBuiltin(root, pos, fn, args)
	default:
		panic(fmt.Sprintf("cannot go %T", fn))
	}
}

var ackCh chan struct{}

func (s *scheduler) ack() { ackCh <- struct{}{} }

// killAll terminates every unfinished goroutine at the end of a path (called on main).
func (s *scheduler) killAll() (leaked int) {
	s.killed = true
	for _, g := range s.gs[1:] {
		if g.done {
			continue
		}
		leaked++
		g.wake <- struct{}{}
		<-ackCh
	}
	return
}

// ---------------------------------------------------------------------------
// Channels

type waiter struct {
	g      *gor
	val    value // value to send / received value
	ok     bool
	done   bool
	sel    *selState
	caseIx int
}

type selState struct {
	fired  bool
	chosen int
	recv   value
	recvOk bool
}

type symchan struct {
	cap    int
	buf    []value
	closed bool
	recvq  []*waiter
	sendq  []*waiter
}

func newChan(n int) *symchan {
	if n < 0 {
		panic(targetPanicMsg("makechan: size out of range"))
	}
	return &symchan{cap: n}
}

func (c *symchan) length() int {
	if c == nil {
		return 0
	}
	return len(c.buf)
}
func (c *symchan) capacity() int {
	if c == nil {
		return 0
	}
	return c.cap
}

func dequeueLive(q *[]*waiter) *waiter {
	for len(*q) > 0 {
		w := (*q)[0]
		*q = (*q)[1:]
		if w.done || (w.sel != nil && w.sel.fired) {
			continue
		}
		return w
	}
	return nil
}

func hasLive(q []*waiter) bool {
	for _, w := range q {
		if !w.done && !(w.sel != nil && w.sel.fired) {
			return true
		}
	}
	return false
}

func fire(w *waiter, v value, ok bool) {
	w.done = true
	w.val = v
	w.ok = ok
	if w.sel != nil {
		w.sel.fired = true
		w.sel.chosen = w.caseIx
		w.sel.recv = v
		w.sel.recvOk = ok
	}
}

// trySend attempts a non-blocking send.
func (c *symchan) trySend(v value) bool {
	if c.closed {
		panic(targetPanicMsg("send on closed channel"))
	}
	if w := dequeueLive(&c.recvq); w != nil {
		fire(w, v, true)
		return true
	}
	if len(c.buf) < c.cap {
		c.buf = append(c.buf, v)
		return true
	}
	return false
}

func (c *symchan) canSend() bool {
	return c.closed || hasLive(c.recvq) || len(c.buf) < c.cap
}

// tryRecv attempts a non-blocking receive.
func (c *symchan) tryRecv() (v value, ok bool, done bool) {
	if len(c.buf) > 0 {
		v = c.buf[0]
		c.buf = c.buf[1:]
		if w := dequeueLive(&c.sendq); w != nil {
			c.buf = append(c.buf, w.val)
			fire(w, nil, true)
		}
		return v, true, true
	}
	if w := dequeueLive(&c.sendq); w != nil {
		v = w.val
		fire(w, nil, true)
		return v, true, true
	}
	if c.closed {
		return nil, false, true
	}
	return nil, false, false
}

func (c *symchan) canRecv() bool {
	return len(c.buf) > 0 || hasLive(c.sendq) || c.closed
}

func chanSend(fr *frame, c *symchan, v value) {
	g := curG(fr)
	if c != nil && c.canSend() {
		sched.yield(g, "chan send", c)
	}
	if c == nil {
		sched.block(g, "send on nil channel", func() bool { return false })
	}
	race.release(g, c)
	if c.trySend(v) {
		return
	}
	w := &waiter{g: g, val: v}
	c.sendq = append(c.sendq, w)
	sched.block(g, "chan send", func() bool { return w.done || c.closed }, c)
	if !w.done && c.closed {
		panic(targetPanicMsg("send on closed channel"))
	}
}

func chanRecv(fr *frame, c *symchan) (value, bool) {
	g := curG(fr)
	if c != nil && c.canRecv() {
		sched.yield(g, "chan recv", c)
	}
	if c == nil {
		sched.block(g, "receive from nil channel", func() bool { return false })
	}
	if v, ok, done := c.tryRecv(); done {
		race.acquire(g, c)
		return v, ok
	}
	w := &waiter{g: g}
	c.recvq = append(c.recvq, w)
	sched.block(g, "chan recv", func() bool { return w.done || c.closed }, c)
	race.acquire(g, c)
	if w.done {
		return w.val, w.ok
	}
	w.done = true
	return nil, false
}

func chanClose(fr *frame, c *symchan) {
	if c == nil {
		panic(targetPanicMsg("close of nil channel"))
	}
	if c.closed {
		panic(targetPanicMsg("close of closed channel"))
	}
	sched.yield(curG(fr), "chan close", c)
	if c.closed {
		panic(targetPanicMsg("close of closed channel"))
	}
	race.release(curG(fr), c)
	c.closed = true
}

func doSelect(fr *frame, instr *ssa.Select) value {
	g := curG(fr)
	type cs struct {
		c    *symchan
		send bool
		v    value
	}
	var cases []cs
	var objs []interface{}
	for _, st := range instr.States {
		c := cs{c: fr.get(st.Chan).(*symchan), send: st.Dir == types.SendOnly}
		if st.Send != nil {
			c.v = fr.get(st.Send)
		}
		cases = append(cases, c)
		if c.c != nil {
			objs = append(objs, c.c)
		}
	}
	anyReady := !instr.Blocking
	for _, c := range cases {
		if c.c != nil && (c.send && c.c.canSend() || !c.send && c.c.canRecv()) {
			anyReady = true
		}
	}
	if anyReady {
		sched.yield(g, "select", objs...)
	}
	result := func(chosen int, recv value, recvOk bool) value {
		if chosen >= 0 && cases[chosen].c != nil {
			if cases[chosen].send {
				race.release(g, cases[chosen].c)
			} else {
				race.acquire(g, cases[chosen].c)
			}
		}
		r := tuple{chosen, recvOk}
		for i, st := range instr.States {
			if st.Dir == types.RecvOnly {
				var v value
				if i == chosen && recvOk {
					v = recv
				} else {
					v = zero(st.Chan.Type().Underlying().(*types.Chan).Elem())
				}
				r = append(r, v)
			}
		}
		return r
	}
	// ready cases
	var ready []int
	for i, c := range cases {
		if c.c == nil {
			continue
		}
		if c.send && c.c.canSend() || !c.send && c.c.canRecv() {
			ready = append(ready, i)
		}
	}
	if len(ready) > 0 {
		k := ready[EX.Choose(len(ready), "select")]
		c := cases[k]
		if c.send {
			if !c.c.trySend(c.v) {
				panic("select: send case became unready")
			}
			return result(k, nil, false)
		}
		v, ok, _ := c.c.tryRecv()
		return result(k, v, ok)
	}
	if !instr.Blocking {
		return result(-1, nil, false)
	}
	// block on all cases
	ss := &selState{chosen: -1}
	for i, c := range cases {
		if c.c == nil {
			continue
		}
		w := &waiter{g: g, sel: ss, caseIx: i, val: c.v}
		if c.send {
			c.c.sendq = append(c.c.sendq, w)
		} else {
			c.c.recvq = append(c.c.recvq, w)
		}
	}
	anyClosed := func() int {
		for i, c := range cases {
			if c.c != nil && c.c.closed {
				return i
			}
		}
		return -1
	}
	sched.block(g, "select", func() bool { return ss.fired || anyClosed() >= 0 }, objs...)
	if ss.fired {
		return result(ss.chosen, ss.recv, ss.recvOk)
	}
	k := anyClosed()
	ss.fired = true
	if cases[k].send {
		panic(targetPanicMsg("send on closed channel"))
	}
	return result(k, nil, false)
}
