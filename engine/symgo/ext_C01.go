package symgo

// Models added for property C01.
//
// 1. redirectToHarness: a callee that lives outside the package under test (so the registry's
//    "renames" cannot reach it) is replaced by a model written as ordinary Go in the harness of
//    the package under test. The redirection is active only if the package under test defines a
//    function with the given name; otherwise the entry behaves as if it did not exist (the real
//    body runs when the callee's package is a source root, else the usual "no model" abort).
//    The model function takes the receiver first and must have the callee's result types.
// 2. a few concrete string/time helpers used by createAllIndexes for logging and file names.

import (
	"go/token"
	"go/types"
	"path/filepath"
	"strconv"

	"golang.org/x/tools/go/ssa"
)

var c01SharedObj = new(int)

var c01Rand int64

var harnessFuncCache = map[*ssa.Program]map[string]*ssa.Function{}

func harnessFunc(i *interpreter, name string) *ssa.Function {
	m := harnessFuncCache[i.prog]
	if m == nil {
		m = map[string]*ssa.Function{}
		harnessFuncCache[i.prog] = m
	}
	if f, ok := m[name]; ok {
		return f
	}
	var found *ssa.Function
	for _, p := range i.prog.AllPackages() {
		if f := p.Func(name); f != nil && f.Blocks != nil {
			found = f
			break
		}
	}
	m[name] = found
	return found
}

func redirectToHarness(ext, harness string) {
	self := func(fr *frame, args []value) value {
		h := harnessFunc(fr.i, harness)
		if h != nil {
			stub(ext + " (cut: model function " + harness + " of the harness)")
			return call(fr.i, fr, token.NoPos, h, args)
		}
		fn := fr.fn
		if fn.Blocks == nil {
			if fr.i.initializing {
				return opaqueResult(fn)
			}
			panic(pathAbort{"unsupported", "no model for external function " + fn.String()})
		}
		skipExternalOnce = fn // run the real body (the externals lookup is cached per function)
		return callSSA(fr.i, fr.caller, token.NoPos, fn, args, nil)
	}
	externals[ext] = self
}

func init() {
	const repo = "github.com/rpcpool/yellowstone-faithful/"
	for ext, h := range map[string]string{
		// C01.codec: the hash-index builder/reader behind the value codec (C04 decides the index itself)
		"(*" + repo + "compactindexsized.Builder).Insert": "c01Model_BuilderInsert",
		"(*" + repo + "compactindexsized.DB).Lookup":      "c01Model_DBLookup",
		// C01.e2e: the hash-index builder/reader objects behind the real index writers/readers
		repo + "compactindexsized.NewBuilderSized":          "c01Model_NewBuilderSized",
		"(*" + repo + "compactindexsized.Builder).Metadata": "c01Model_BuilderMetadata",
		"(*" + repo + "compactindexsized.Builder).Seal":     "c01Model_BuilderSeal",
		"(*" + repo + "compactindexsized.Builder).Close":    "c01Model_BuilderClose",
		repo + "compactindexsized.Open":                     "c01Model_compactindexOpen",
		repo + "iplddecoders.DecodeEpoch":                   "c01Model_DecodeEpoch",
		// C01.offsets: the sealing closures run sequentially in spawn order (interleavings: C01.seal)
		"(*golang.org/x/sync/errgroup.Group).Go":   "c01Model_errgroupGo",
		"(*golang.org/x/sync/errgroup.Group).Wait": "c01Model_errgroupWait",
		// C01.e2e / C01.read: the carv2 reader of a local CARv1 file (mmap + offset reader)
		"(*github.com/ipld/go-car/v2.Reader).DataReader": "c01Model_carv2DataReader",
		// C01.verify: the sig-exists reader used by `index --verify`
		repo + "bucketteer.Open":                 "c01Model_bucketteerOpen",
		"(*" + repo + "bucketteer.Reader).Has":   "c01Model_bucketteerHas",
		"(*" + repo + "bucketteer.Reader).Close": "c01Model_bucketteerReaderClose",
		// CAR header CBOR codec (reflection-driven refmt): cut in C01.section / C01.e2e
		"github.com/ipfs/go-ipld-cbor.DecodeInto": "c01Model_cborDecodeInto",
		"github.com/ipld/go-car.WriteHeader":      "c01Model_carWriteHeader",
		// C01.offsets: everything createAllIndexes touches outside package main
		repo + "carreader.New":                                         "c01Model_carreaderNew",
		"(*" + repo + "carreader.CarReader).NextNode":                  "c01Model_NextNode",
		"(*" + repo + "carreader.CarReader).HeaderSize":                "c01Model_HeaderSize",
		"(*github.com/ipfs/go-libipfs/blocks.BasicBlock).RawData":      "c01Model_RawData",
		repo + "iplddecoders.DecodeBlock":                              "c01Model_DecodeBlock",
		repo + "iplddecoders.DecodeTransaction":                        "c01Model_DecodeTransaction",
		"(*" + repo + "indexes.CidToOffsetAndSize_Writer).Put":         "c01Model_CidToOffsetPut",
		"(*" + repo + "indexes.CidToOffsetAndSize_Writer).Seal":        "c01Model_CidToOffsetSeal",
		"(*" + repo + "indexes.CidToOffsetAndSize_Writer).Close":       "c01Model_CidToOffsetClose",
		"(*" + repo + "indexes.CidToOffsetAndSize_Writer).GetFilepath": "c01Model_CidToOffsetPath",
		"(*" + repo + "indexes.SlotToCid_Writer).Put":                  "c01Model_SlotToCidPut",
		"(*" + repo + "indexes.SlotToCid_Writer).Seal":                 "c01Model_SlotToCidSeal",
		"(*" + repo + "indexes.SlotToCid_Writer).Close":                "c01Model_SlotToCidClose",
		"(*" + repo + "indexes.SlotToCid_Writer).GetFilepath":          "c01Model_SlotToCidPath",
		"(*" + repo + "indexes.SigToCid_Writer).Put":                   "c01Model_SigToCidPut",
		"(*" + repo + "indexes.SigToCid_Writer).Seal":                  "c01Model_SigToCidSeal",
		"(*" + repo + "indexes.SigToCid_Writer).Close":                 "c01Model_SigToCidClose",
		"(*" + repo + "indexes.SigToCid_Writer).GetFilepath":           "c01Model_SigToCidPath",
		repo + "bucketteer.NewWriter":                                  "c01Model_bucketteerNewWriter",
		"(*" + repo + "bucketteer.Writer).Put":                         "c01Model_bucketteerPut",
		"(*" + repo + "bucketteer.Writer).Seal":                        "c01Model_bucketteerSeal",
		"(*" + repo + "bucketteer.Writer).Close":                       "c01Model_bucketteerClose",
		repo + "blocktimeindex.NewForEpoch":                            "c01Model_blocktimeNewForEpoch",
		"(*" + repo + "blocktimeindex.Index).Set":                      "c01Model_blocktimeSet",
		"(*" + repo + "blocktimeindex.Index).WriteTo":                  "c01Model_blocktimeWriteTo",
		repo + "blocktimeindex.FormatFilename":                         "c01Model_blocktimeFormatFilename",
	} {
		redirectToHarness(ext, h)
	}

	// verifC01YieldShared(): a yield point on one shared pseudo-object (refinement of the schedule
	// granularity at accesses to a variable shared without synchronisation)
	verifIntrinsics["verifC01YieldShared"] = func(fr *frame, args []value) value {
		sched.yield(curG(fr), "shared variable access", c01SharedObj)
		return nil
	}

	e := externals
	if e["github.com/dustin/go-humanize.Comma"] == nil {
		e["github.com/dustin/go-humanize.Comma"] = func(fr *frame, args []value) value {
			stub("humanize.Comma (model: decimal text without separators; logging only)")
			if v, ok := args[0].(int64); ok {
				return strconv.FormatInt(v, 10)
			}
			return "<sym>"
		}
	}
	if e["github.com/dustin/go-humanize.CommafWithDigits"] == nil {
		e["github.com/dustin/go-humanize.CommafWithDigits"] = func(fr *frame, args []value) value {
			stub("humanize.CommafWithDigits (model: constant text; logging only)")
			return "0"
		}
	}
	if e["(time.Duration).Truncate"] == nil {
		e["(time.Duration).Truncate"] = func(fr *frame, args []value) value {
			stub("time.Duration.Truncate (model: identity; logging only)")
			return args[0]
		}
	}
	e["(github.com/gagliardetto/solana-go.Signature).IsZero"] = func(fr *frame, args []value) value {
		stub("solana.Signature.IsZero (model: all 64 bytes are zero)")
		acc := value(true)
		for _, b := range args[0].(array) {
			acc = andV(acc, equalsV(types.Typ[types.Uint8], b, uint8(0)))
		}
		return acc
	}
	if e["(time.Time).Format"] == nil {
		e["(time.Time).Format"] = func(fr *frame, args []value) value {
			stub("time.Time.Format (model: constant text; temp-dir names only)")
			return "20060102-150405.000000000"
		}
	}
	if e["math/rand.Int63"] == nil {
		e["math/rand.Int63"] = func(fr *frame, args []value) value {
			stub("math/rand.Int63 (model: successive integers; temp-dir names only)")
			c01Rand++
			return c01Rand
		}
	}
	if e["path/filepath.Join"] == nil {
		e["path/filepath.Join"] = func(fr *frame, args []value) value {
			var ss []string
			for _, s := range args[0].([]value) {
				ss = append(ss, s.(string))
			}
			return filepath.Join(ss...)
		}
	}
}
