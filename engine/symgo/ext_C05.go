package symgo

import (
	"sync"

	"golang.org/x/tools/go/ssa"
)

// fnName caches fn.String() (it formats the receiver type on every call; the interpreter asks
// for it on every call instruction).
var fnNames sync.Map

func fnName(fn *ssa.Function) string {
	if n, ok := fnNames.Load(fn); ok {
		return n.(string)
	}
	n := fn.String()
	fnNames.Store(fn, n)
	return n
}

// Helpers added for property C05 (signature-existence index).

func init() {
	// verifC05Or / verifC05And: branch-free boolean connectives for harness-side oracles (the
	// harness file carries the ordinary Go bodies `a || b` / `a && b`, which would fork).
	verifIntrinsics["verifC05Or"] = func(fr *frame, args []value) value { return orV(args[0], args[1]) }
	verifIntrinsics["verifC05And"] = func(fr *frame, args []value) value { return andV(args[0], args[1]) }
}
