package symgo

import (
	"sync"

	"golang.org/x/tools/go/ssa"
)

// fnName caches fn.String() (it formats the receiver type on every call; the interpreter asks
// for it on every call instruction).
var fnNames sync.Map

func fnName(fn *ssa.Function) string {
	if n, ok := fnNames.Load(fn); ok {
		return n.(string)
	}
	n := fn.String()
	fnNames.Store(fn, n)
	return n
}

// Helpers added for property C05 (signature-existence index).

func init() {
	// verifC05Or / verifC05And: branch-free boolean connectives for harness-side oracles (the
	// harness file carries the ordinary Go bodies `a || b` / `a && b`, which would fork).
	verifIntrinsics["verifC05Or"] = func(fr *frame, args []value) value { return orV(args[0], args[1]) }
	verifIntrinsics["verifC05And"] = func(fr *frame, args []value) value { return andV(args[0], args[1]) }

	// golang.org/x/exp/mmap over the in-memory file system (model: a read-only live view of the
	// memfs file; Open never fails for an existing file; ReadAt has the documented semantics of
	// mmap.ReaderAt: error for a closed reader or an offset outside [0,len], io.EOF on a short read).
	const mm = "golang.org/x/exp/mmap."
	externals[mm+"Open"] = func(fr *frame, args []value) value {
		stub("mmap.Open (model: read-only view of the memfs file)")
		mf := mfs.files[args[0].(string)]
		if mf == nil {
			return tuple{(*value)(nil), errNotExist(fr)}
		}
		return tuple{newFileValue(mf, false), iface{}}
	}
	externals["(*"+mm+"ReaderAt).Len"] = func(fr *frame, args []value) value { return len(getOpen(args[0]).mf.data) }
	externals["(*"+mm+"ReaderAt).At"] = func(fr *frame, args []value) value {
		return getOpen(args[0]).mf.data[int(asInt64(args[1]))]
	}
	externals["(*"+mm+"ReaderAt).Close"] = func(fr *frame, args []value) value {
		getOpen(args[0]).closed = true
		return iface{}
	}
	externals["(*"+mm+"ReaderAt).ReadAt"] = func(fr *frame, args []value) value {
		of := getOpen(args[0])
		if of.closed {
			return tuple{0, newEngineError("mmap: closed", nil)}
		}
		b := args[1].([]value)
		off := asInt64(args[2])
		if off < 0 || int64(len(of.mf.data)) < off {
			return tuple{0, newEngineError("mmap: invalid ReadAt offset", nil)}
		}
		n := copy(b, of.mf.data[off:])
		if n < len(b) {
			return tuple{n, ioEOF(fr)}
		}
		return tuple{n, iface{}}
	}
}
