package symgo

// Models added for property C02 (RPC answers reproduce the archive).
//
// c02Redirect: a library callee is replaced by a model function written as ordinary Go in the C02
// harness of the package under test (same mechanism as redirectToHarness of C01 / c11Redirect,
// chaining to an earlier registration for the same callee). Without a harness function of that
// name the entry behaves as if it did not exist. Every such replacement is a cut and is listed in
// the "assumes" of the obligation using it.

import (
	"go/token"
)

func c02Redirect(ext, harness string) {
	prev := externals[ext]
	var self externalFn
	self = func(fr *frame, args []value) value {
		if h := harnessFunc(fr.i, harness); h != nil {
			stub(ext + " (cut: model function " + harness + " of the harness)")
			return call(fr.i, fr, token.NoPos, h, args)
		}
		if prev != nil {
			return prev(fr, args)
		}
		fn := fr.fn
		if fn.Blocks == nil {
			if fr.i.initializing {
				return opaqueResult(fn)
			}
			panic(pathAbort{"unsupported", "no model for external function " + fn.String()})
		}
		skipExternalOnce = fn // run the real body (the externals lookup is cached per function)
		return callSSA(fr.i, fr.caller, token.NoPos, fn, args, nil)
	}
	externals[ext] = self
}

func init() {
	// C02.grpcBlock / C02.jsonBlock: the fetch closures of the getBlock handlers run one at a time,
	// in every order (the interleavings at synchronisation granularity are C02.blockSched)
	c02Redirect("(*golang.org/x/sync/errgroup.Group).Go", "c02Model_errgroupGo")
	c02Redirect("(*golang.org/x/sync/errgroup.Group).Wait", "c02Model_errgroupWait")
	c02Redirect("(*golang.org/x/sync/errgroup.Group).SetLimit", "c02Model_errgroupSetLimit")
	// C02.jsonBlock / C02.jsonTx: response headers of fasthttp (library) are not part of the answer
	c02Redirect("(*github.com/valyala/fasthttp.ResponseHeader).Set", "c02Model_headerSet")
	// C02.grpcBlockPrefetch / C02.jsonBlockPrefetch: the raw-object cache (bigcache behind hugecache)
	// is a map kept by the harness; the GetNodeByCid model consults it first
	c02Redirect("(*github.com/rpcpool/yellowstone-faithful/huge-cache.Cache).PutRawCarObject", "c02Model_cachePut")
	c02Redirect("(*github.com/rpcpool/yellowstone-faithful/huge-cache.Cache).GetRawCarObject", "c02Model_cacheGet")
	// C02.nodeRead / C02.blockSchedCar: the local CAR file behind (*Epoch).GetNodeByOffsetAndSize is the
	// harness's model CAR (go-car/v2's Reader is library code); everything after DataReader() is real
	c02Redirect("(*github.com/ipld/go-car/v2.Reader).DataReader", "c02Model_carDataReader")
}
