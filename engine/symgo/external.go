package symgo

// Engine intrinsics: the harness API (verif*), models of library functions that have no SSA
// body or cannot be interpreted (errors, fmt, sync, atomic, time, sort.Slice, ...).

import (
	"fmt"
	"go/token"
	"go/types"
	"math"
	"os"
	"strconv"
	"strings"
	"unicode/utf8"

	"golang.org/x/tools/go/ssa"
)

type externalFn func(fr *frame, args []value) value

var externals = map[string]externalFn{}

// verif* functions of the harness runtime, matched by bare function name in any package.
var verifIntrinsics = map[string]externalFn{}

// noopPrefixes: functions whose String() starts with one of these return zero values.
var noopPrefixes = []string{
	"k8s.io/klog/v2.", "(k8s.io/klog/v2.", "(*k8s.io/klog/v2.",
	"log.Print", "log.Fatal", "(*log.Logger).",
	"fmt.Print", "fmt.Fprint",
	"github.com/rpcpool/yellowstone-faithful/metrics.",
	"(github.com/prometheus/client_golang/prometheus.", "(*github.com/prometheus/client_golang/prometheus.",
	"github.com/prometheus/client_golang/prometheus.",
	"github.com/prometheus/client_golang/prometheus/promauto.",
	"runtime.SetFinalizer", "runtime.KeepAlive", "runtime.GC", "runtime/debug.",
	"os.Stderr", "(*os.File).Sync",
}

func findExternal(fn *ssa.Function) externalFn {
	name := fnName(fn)
	if e := externals[name]; e != nil {
		return e
	}
	if strings.HasPrefix(fn.Name(), "verif") {
		if e := verifIntrinsics[fn.Name()]; e != nil {
			return e
		}
	}
	if e := atomicTypedMethod(name); e != nil {
		return e
	}
	if fn.Blocks == nil {
		for _, p := range noopPrefixes {
			if strings.HasPrefix(name, p) {
				return func(fr *frame, args []value) value {
					if EX != nil {
						EX.Stubs["noop:"+name]++
					}
					return zeroResults(fn)
				}
			}
		}
	}
	return nil
}

func zeroResults(fn *ssa.Function) value {
	res := fn.Signature.Results()
	switch res.Len() {
	case 0:
		return nil
	case 1:
		return zero(res.At(0).Type())
	}
	t := make(tuple, res.Len())
	for i := range t {
		t[i] = zero(res.At(i).Type())
	}
	return t
}

// opaqueResult is the result of an unmodelled external call during package initialisation.
func opaqueResult(fn *ssa.Function) value {
	res := fn.Signature.Results()
	mk := func(t types.Type) value {
		switch u := t.Underlying().(type) {
		case *types.Basic:
			return zero(u)
		case *types.Slice, *types.Map, *types.Chan, *types.Signature:
			return zero(t)
		case *types.Interface:
			if types.Identical(t, types.Universe.Lookup("error").Type()) {
				return iface{}
			}
		}
		return opaque{fn.String()}
	}
	switch res.Len() {
	case 0:
		return nil
	case 1:
		return mk(res.At(0).Type())
	}
	t := make(tuple, res.Len())
	for i := range t {
		t[i] = mk(res.At(i).Type())
	}
	return t
}

func stub(name string) {
	if EX != nil {
		EX.Stubs[name]++
	}
}

// ---------------------------------------------------------------------------
// engine error values

var (
	rtPkg       = types.NewPackage("symgo/rt", "rt")
	errLeafT    *types.Named // Error()
	errWrapT    *types.Named // Error(), Unwrap() error
	errJoinT    *types.Named // Error(), Unwrap() []error
	errorIfaceT = types.Universe.Lookup("error").Type()
	engineFns   = map[string]*ssa.Function{}
)

func initEngineTypes(i *interpreter) {
	str := types.Typ[types.String]
	mkNamed := func(name string) *types.Named {
		obj := types.NewTypeName(token.NoPos, rtPkg, name, nil)
		st := types.NewStruct([]*types.Var{
			types.NewField(token.NoPos, rtPkg, "msg", str, false),
			types.NewField(token.NoPos, rtPkg, "wrapped", types.NewSlice(errorIfaceT), false),
		}, nil)
		return types.NewNamed(obj, st, nil)
	}
	addMethod := func(n *types.Named, name string, res types.Type) {
		recv := types.NewVar(token.NoPos, rtPkg, "e", types.NewPointer(n))
		sig := types.NewSignatureType(recv, nil, nil, nil, types.NewTuple(types.NewVar(token.NoPos, rtPkg, "", res)), false)
		n.AddMethod(types.NewFunc(token.NoPos, rtPkg, name, sig))
		engineFns[n.Obj().Name()+"."+name] = i.prog.NewFunction(name, sig, "engine")
	}
	errLeafT = mkNamed("errorLeaf")
	addMethod(errLeafT, "Error", str)
	errWrapT = mkNamed("errorWrap")
	addMethod(errWrapT, "Error", str)
	addMethod(errWrapT, "Unwrap", errorIfaceT)
	errJoinT = mkNamed("errorJoin")
	addMethod(errJoinT, "Error", str)
	addMethod(errJoinT, "Unwrap", types.NewSlice(errorIfaceT))

	for _, n := range []string{"errorLeaf", "errorWrap", "errorJoin"} {
		externals["(*symgo/rt."+n+").Error"] = func(fr *frame, args []value) value {
			return (*args[0].(*value)).(structure)[0]
		}
	}
	externals["(*symgo/rt.errorWrap).Unwrap"] = func(fr *frame, args []value) value {
		w := (*args[0].(*value)).(structure)[1].([]value)
		if len(w) == 0 {
			return iface{}
		}
		return w[0]
	}
	externals["(*symgo/rt.errorJoin).Unwrap"] = func(fr *frame, args []value) value {
		return (*args[0].(*value)).(structure)[1]
	}
}

func engineMethod(i *interpreter, typ types.Type, name string) *ssa.Function {
	if p, ok := typ.(*types.Pointer); ok {
		if n, ok := p.Elem().(*types.Named); ok && n.Obj().Pkg() == rtPkg {
			return engineFns[n.Obj().Name()+"."+name]
		}
	}
	return nil
}

func newEngineError(msg string, wrapped []value) value {
	t := errLeafT
	if len(wrapped) == 1 {
		t = errWrapT
	} else if len(wrapped) > 1 {
		t = errJoinT
	}
	cell := value(structure{msg, wrapped})
	return iface{t: types.NewPointer(t), v: &cell}
}

// errorMessage returns err.Error() for a target error value (calling its real method).
func errorMessage(fr *frame, e iface) string {
	if e.t == nil {
		return "<nil>"
	}
	f := engineMethod(fr.i, e.t, "Error")
	if f == nil {
		f = findMethod(fr.i, e.t, "Error")
	}
	if f == nil {
		return fmt.Sprintf("<%s>", e.t)
	}
	r := call(fr.i, fr, token.NoPos, f, []value{e.v})
	if s, ok := r.(string); ok {
		return s
	}
	return "<error>"
}

func implementsError(i *interpreter, t types.Type) bool {
	if t == nil {
		return false
	}
	return types.Implements(t, errorIfaceT.Underlying().(*types.Interface))
}

// goArg converts an interpreter value into a Go value suitable for fmt.
func goArg(fr *frame, v value) interface{} {
	switch x := v.(type) {
	case iface:
		if x.t == nil {
			return nil
		}
		if implementsError(fr.i, x.t) {
			return fmt.Errorf("%s", errorMessage(fr, x))
		}
		if f := findMethod(fr.i, x.t, "String"); f != nil && f.Signature.Params().Len() == 0 && f.Blocks != nil {
			if r, ok := call(fr.i, fr, token.NoPos, f, []value{x.v}).(string); ok {
				return r
			}
		}
		return goArg(fr, x.v)
	case sym:
		return "<sym " + x.t.String() + ">"
	case []value:
		allb := len(x) > 0
		for _, e := range x {
			if _, ok := e.(uint8); !ok {
				allb = false
				break
			}
		}
		if allb {
			b := make([]byte, len(x))
			for i, e := range x {
				b[i] = e.(uint8)
			}
			return b
		}
		return toString(x)
	case bool, int, int8, int16, int32, int64, uint, uint8, uint16, uint32, uint64, uintptr, float32, float64, string:
		return x
	case *value:
		if x == nil {
			return nil
		}
		return fmt.Sprintf("%p", x)
	}
	return toString(v)
}

func formatMsg(fr *frame, format string, args []value) (msg string, wrapped []value) {
	gargs := make([]interface{}, len(args))
	for i, a := range args {
		gargs[i] = goArg(fr, a)
	}
	// locate %w operands
	argi := 0
	for i := 0; i < len(format); i++ {
		if format[i] != '%' {
			continue
		}
		i++
		for i < len(format) && strings.ContainsRune("+-# 0123456789.*[]", rune(format[i])) {
			i++
		}
		if i >= len(format) {
			break
		}
		if format[i] == '%' {
			continue
		}
		if format[i] == 'w' && argi < len(args) {
			if e, ok := args[argi].(iface); ok && e.t != nil {
				wrapped = append(wrapped, e)
			}
		}
		argi++
	}
	f := strings.ReplaceAll(format, "%w", "%v")
	return fmt.Sprintf(f, gargs...), wrapped
}

func extErrorsIs(fr *frame, err, target iface) bool {
	if err.t == nil || target.t == nil {
		return err.t == nil && target.t == nil
	}
	comparable := types.Comparable(target.t)
	var walk func(e iface, depth int) bool
	walk = func(e iface, depth int) bool {
		if e.t == nil || depth > 50 {
			return false
		}
		if comparable && sameType(e.t, target.t) && equals(e.t, e.v, target.v) {
			return true
		}
		if f := findMethod(fr.i, e.t, "Is"); f != nil && f.Blocks != nil && f.Signature.Params().Len() == 1 {
			if truth(call(fr.i, fr, token.NoPos, f, []value{e.v, target})) {
				return true
			}
		}
		for _, u := range unwrapAll(fr, e) {
			if walk(u, depth+1) {
				return true
			}
		}
		return false
	}
	return walk(err, 0)
}

func unwrapAll(fr *frame, e iface) []iface {
	f := engineMethod(fr.i, e.t, "Unwrap")
	if f == nil {
		f = findMethod(fr.i, e.t, "Unwrap")
	}
	if f == nil || f.Signature.Params().Len() != 0 || f.Signature.Results().Len() != 1 {
		return nil
	}
	if f.Blocks == nil && findExternal(f) == nil {
		return nil
	}
	r := call(fr.i, fr, token.NoPos, f, []value{e.v})
	switch r := r.(type) {
	case iface:
		if r.t == nil {
			return nil
		}
		return []iface{r}
	case []value:
		var out []iface
		for _, x := range r {
			if xi, ok := x.(iface); ok && xi.t != nil {
				out = append(out, xi)
			}
		}
		return out
	}
	return nil
}

func extErrorsAs(fr *frame, err iface, target iface) bool {
	if target.t == nil {
		panic(targetPanicMsg("errors: target cannot be nil"))
	}
	pt, ok := target.t.Underlying().(*types.Pointer)
	if !ok {
		panic(targetPanicMsg("errors: target must be a non-nil pointer"))
	}
	T := pt.Elem()
	_, tIsIface := T.Underlying().(*types.Interface)
	var walk func(e iface, depth int) bool
	walk = func(e iface, depth int) bool {
		if e.t == nil || depth > 50 {
			return false
		}
		if tIsIface {
			if types.Implements(e.t, T.Underlying().(*types.Interface)) {
				*target.v.(*value) = e
				return true
			}
		} else if types.Identical(e.t, T) {
			store(T, target.v.(*value), e.v)
			return true
		}
		for _, u := range unwrapAll(fr, e) {
			if walk(u, depth+1) {
				return true
			}
		}
		return false
	}
	return walk(err, 0)
}

// ---------------------------------------------------------------------------

func init() {
	for k, v := range map[string]externalFn{
		"(runtime.errorString).Error": func(fr *frame, args []value) value {
			return "runtime error: " + args[0].(string)
		},
		"errors.New": func(fr *frame, args []value) value {
			return newEngineError(args[0].(string), nil)
		},
		"errors.Is": func(fr *frame, args []value) value {
			stub("errors.Is")
			return extErrorsIs(fr, args[0].(iface), args[1].(iface))
		},
		"errors.As": func(fr *frame, args []value) value {
			stub("errors.As")
			return extErrorsAs(fr, args[0].(iface), args[1].(iface))
		},
		"errors.Unwrap": func(fr *frame, args []value) value {
			e := args[0].(iface)
			if e.t == nil {
				return iface{}
			}
			f := engineMethod(fr.i, e.t, "Unwrap")
			if f == nil {
				f = findMethod(fr.i, e.t, "Unwrap")
			}
			if f == nil || f.Signature.Results().Len() != 1 || !types.Identical(f.Signature.Results().At(0).Type(), errorIfaceT) {
				return iface{}
			}
			return call(fr.i, fr, token.NoPos, f, []value{e.v})
		},
		"errors.Join": func(fr *frame, args []value) value {
			var ws []value
			var msgs []string
			for _, a := range args[0].([]value) {
				if e := a.(iface); e.t != nil {
					ws = append(ws, e)
					msgs = append(msgs, errorMessage(fr, e))
				}
			}
			if len(ws) == 0 {
				return iface{}
			}
			cell := value(structure{strings.Join(msgs, "\n"), ws})
			return iface{t: types.NewPointer(errJoinT), v: &cell}
		},
		"fmt.Errorf": func(fr *frame, args []value) value {
			stub("fmt.Errorf")
			msg, wrapped := formatMsg(fr, args[0].(string), args[1].([]value))
			return newEngineError(msg, wrapped)
		},
		"fmt.Sprintf": func(fr *frame, args []value) value {
			stub("fmt.Sprintf")
			msg, _ := formatMsg(fr, args[0].(string), args[1].([]value))
			return msg
		},
		"fmt.Sprint": func(fr *frame, args []value) value {
			stub("fmt.Sprint")
			var g []interface{}
			for _, a := range args[0].([]value) {
				g = append(g, goArg(fr, a))
			}
			return fmt.Sprint(g...)
		},
		"fmt.Sprintln": func(fr *frame, args []value) value {
			var g []interface{}
			for _, a := range args[0].([]value) {
				g = append(g, goArg(fr, a))
			}
			return fmt.Sprintln(g...)
		},
		"bytes.Equal": func(fr *frame, args []value) value {
			a := args[0].([]value)
			b := args[1].([]value)
			if len(a) != len(b) {
				return false
			}
			acc := value(true)
			for i := range a {
				acc = andV(acc, equalsV(types.Typ[types.Uint8], a[i], b[i]))
				if acc == false {
					return false
				}
			}
			return acc
		},
		"bytes.IndexByte": func(fr *frame, args []value) value {
			s := args[0].([]value)
			for i, b := range s {
				if truth(equalsV(types.Typ[types.Uint8], b, args[1])) {
					return i
				}
			}
			return -1
		},
		"internal/bytealg.IndexByte": func(fr *frame, args []value) value {
			s := args[0].([]value)
			for i, b := range s {
				if truth(equalsV(types.Typ[types.Uint8], b, args[1])) {
					return i
				}
			}
			return -1
		},
		"internal/bytealg.IndexByteString": func(fr *frame, args []value) value {
			return strings.IndexByte(args[0].(string), concretize(args[1], "byte").(byte))
		},
		"internal/bytealg.Equal": func(fr *frame, args []value) value {
			return externals["bytes.Equal"](fr, args)
		},
		"internal/bytealg.Compare": func(fr *frame, args []value) value {
			a := args[0].([]value)
			b := args[1].([]value)
			for i := 0; i < len(a) && i < len(b); i++ {
				if truth(binop(token.LSS, nil, a[i], b[i])) {
					return -1
				}
				if truth(binop(token.GTR, nil, a[i], b[i])) {
					return 1
				}
			}
			switch {
			case len(a) < len(b):
				return -1
			case len(a) > len(b):
				return 1
			}
			return 0
		},
		"internal/bytealg.MakeNoZero": func(fr *frame, args []value) value {
			n := int(asInt64(args[0]))
			s := make([]value, n)
			for i := range s {
				s[i] = uint8(0)
			}
			return s
		},
		"internal/bytealg.Count": func(fr *frame, args []value) value {
			n := 0
			for _, b := range args[0].([]value) {
				if truth(equalsV(types.Typ[types.Uint8], b, args[1])) {
					n++
				}
			}
			return n
		},
		"math.Float64frombits": func(fr *frame, args []value) value {
			return math.Float64frombits(concretize(args[0], "float bits").(uint64))
		},
		"math.Float64bits": func(fr *frame, args []value) value { return math.Float64bits(args[0].(float64)) },
		"math.Float32frombits": func(fr *frame, args []value) value {
			return math.Float32frombits(concretize(args[0], "float bits").(uint32))
		},
		"math.Float32bits": func(fr *frame, args []value) value { return math.Float32bits(args[0].(float32)) },
		"math.Abs":         func(fr *frame, args []value) value { return math.Abs(args[0].(float64)) },
		"math.Floor":       func(fr *frame, args []value) value { return math.Floor(args[0].(float64)) },
		"math.Ceil":        func(fr *frame, args []value) value { return math.Ceil(args[0].(float64)) },
		"math.Log2":        func(fr *frame, args []value) value { return math.Log2(args[0].(float64)) },
		"math.Log":         func(fr *frame, args []value) value { return math.Log(args[0].(float64)) },
		"math.Sqrt":        func(fr *frame, args []value) value { return math.Sqrt(args[0].(float64)) },
		"math.Pow":         func(fr *frame, args []value) value { return math.Pow(args[0].(float64), args[1].(float64)) },
		"math.IsNaN":       func(fr *frame, args []value) value { return math.IsNaN(args[0].(float64)) },
		"math.IsInf":       func(fr *frame, args []value) value { return math.IsInf(args[0].(float64), args[1].(int)) },
		"math.Inf":         func(fr *frame, args []value) value { return math.Inf(args[0].(int)) },
		"math.NaN":         func(fr *frame, args []value) value { return math.NaN() },
		"os.Exit": func(fr *frame, args []value) value {
			panic(targetPanicMsg(fmt.Sprintf("os.Exit(%v)", args[0])))
		},
		"os.Getenv":          func(fr *frame, args []value) value { return "" },
		"os.Getpagesize":     func(fr *frame, args []value) value { return 4096 },
		"runtime.NumCPU":     func(fr *frame, args []value) value { return 4 },
		"runtime.GOMAXPROCS": func(fr *frame, args []value) value { return 4 },
		"runtime.Gosched": func(fr *frame, args []value) value {
			sched.yield(curG(fr), "gosched")
			return nil
		},
		"strconv.Itoa": func(fr *frame, args []value) value { return strconv.Itoa(args[0].(int)) },
		"strconv.Atoi": func(fr *frame, args []value) value {
			i, e := strconv.Atoi(args[0].(string))
			if e != nil {
				return tuple{i, newEngineError(e.Error(), nil)}
			}
			return tuple{i, iface{}}
		},
		"strconv.FormatInt": func(fr *frame, args []value) value {
			return strconv.FormatInt(args[0].(int64), args[1].(int))
		},
		"strconv.FormatUint": func(fr *frame, args []value) value {
			return strconv.FormatUint(args[0].(uint64), args[1].(int))
		},
		"strconv.Quote":      func(fr *frame, args []value) value { return strconv.Quote(args[0].(string)) },
		"strings.Count":      func(fr *frame, args []value) value { return strings.Count(args[0].(string), args[1].(string)) },
		"strings.EqualFold":  func(fr *frame, args []value) value { return strings.EqualFold(args[0].(string), args[1].(string)) },
		"strings.Index":      func(fr *frame, args []value) value { return strings.Index(args[0].(string), args[1].(string)) },
		"strings.IndexByte":  func(fr *frame, args []value) value { return strings.IndexByte(args[0].(string), args[1].(byte)) },
		"strings.Contains":   func(fr *frame, args []value) value { return strings.Contains(args[0].(string), args[1].(string)) },
		"strings.HasPrefix":  func(fr *frame, args []value) value { return strings.HasPrefix(args[0].(string), args[1].(string)) },
		"strings.HasSuffix":  func(fr *frame, args []value) value { return strings.HasSuffix(args[0].(string), args[1].(string)) },
		"strings.TrimSpace":  func(fr *frame, args []value) value { return strings.TrimSpace(args[0].(string)) },
		"strings.TrimPrefix": func(fr *frame, args []value) value { return strings.TrimPrefix(args[0].(string), args[1].(string)) },
		"strings.TrimSuffix": func(fr *frame, args []value) value { return strings.TrimSuffix(args[0].(string), args[1].(string)) },
		"strings.TrimRight":  func(fr *frame, args []value) value { return strings.TrimRight(args[0].(string), args[1].(string)) },
		"strings.ToLower":    func(fr *frame, args []value) value { return strings.ToLower(args[0].(string)) },
		"strings.ToUpper":    func(fr *frame, args []value) value { return strings.ToUpper(args[0].(string)) },
		"strings.Join": func(fr *frame, args []value) value {
			var ss []string
			for _, s := range args[0].([]value) {
				ss = append(ss, s.(string))
			}
			return strings.Join(ss, args[1].(string))
		},
		"strings.Replace": func(fr *frame, args []value) value {
			return strings.Replace(args[0].(string), args[1].(string), args[2].(string), args[3].(int))
		},
		"strings.ReplaceAll": func(fr *frame, args []value) value {
			return strings.ReplaceAll(args[0].(string), args[1].(string), args[2].(string))
		},
		"unicode/utf8.DecodeRuneInString": func(fr *frame, args []value) value {
			r, n := utf8.DecodeRuneInString(args[0].(string))
			return tuple{r, n}
		},
		"unicode/utf8.RuneCountInString": func(fr *frame, args []value) value {
			return utf8.RuneCountInString(args[0].(string))
		},
		// zstd is cut: compression is modelled as the identity (a bijection on byte strings)
		"github.com/rpcpool/yellowstone-faithful/tooling.CompressZstd": func(fr *frame, args []value) value {
			stub("tooling.CompressZstd (model: identity)")
			return tuple{append([]value{}, args[0].([]value)...), iface{}}
		},
		"github.com/rpcpool/yellowstone-faithful/tooling.DecompressZstd": func(fr *frame, args []value) value {
			stub("tooling.DecompressZstd (model: identity)")
			return tuple{append([]value{}, args[0].([]value)...), iface{}}
		},
		"sort.Slice":       extSortSlice,
		"sort.SliceStable": extSortSlice,
		"sort.Ints": func(fr *frame, args []value) value {
			x := args[0].([]value)
			insertionSort(len(x), func(i, j int) bool { return truth(binop(token.LSS, nil, x[i], x[j])) }, func(i, j int) { x[i], x[j] = x[j], x[i] })
			return nil
		},
		"sort.Strings": func(fr *frame, args []value) value {
			x := args[0].([]value)
			insertionSort(len(x), func(i, j int) bool { return x[i].(string) < x[j].(string) }, func(i, j int) { x[i], x[j] = x[j], x[i] })
			return nil
		},
	} {
		externals[k] = v
	}
	initVerifIntrinsics()
	initSyncIntrinsics()
}

func insertionSort(n int, less func(i, j int) bool, swap func(i, j int)) {
	for i := 1; i < n; i++ {
		for j := i; j > 0 && less(j, j-1); j-- {
			swap(j, j-1)
		}
	}
}

// extSortSlice: sort.Slice(x any, less func(i, j int) bool) — the real implementation needs
// reflectlite.Swapper; this model is an insertion sort that calls the real less closure
// (symbolically: every comparison may fork the path). Any correct comparison sort produces a
// permutation ordered by less, which is all callers may rely on.
func extSortSlice(fr *frame, args []value) value {
	stub("sort.Slice(model: insertion sort over the real less)")
	x := args[0].(iface).v.([]value)
	lessFn := args[1]
	insertionSort(len(x), func(i, j int) bool {
		return truth(call(fr.i, fr, token.NoPos, lessFn, []value{i, j}))
	}, func(i, j int) {
		x[i], x[j] = x[j], x[i]
	})
	return nil
}

// ---------------------------------------------------------------------------
// harness API

func posOf(fr *frame) string {
	if fr == nil || fr.caller == nil || fr.caller.fn == nil {
		return ""
	}
	return fr.caller.fn.String()
}

func nondetOfKind(k types.BasicKind) externalFn {
	return func(fr *frame, args []value) value {
		w, _ := kindWidth(k)
		t := EX.newInput(args[0].(string), w)
		if EX.concrete != nil {
			return concreteOfKind(k, EX.concrete.Eval(t))
		}
		return sym{t, k}
	}
}

func initVerifIntrinsics() {
	v := verifIntrinsics
	v["verifU64"] = nondetOfKind(types.Uint64)
	v["verifU32"] = nondetOfKind(types.Uint32)
	v["verifU16"] = nondetOfKind(types.Uint16)
	v["verifU8"] = nondetOfKind(types.Uint8)
	v["verifInt"] = nondetOfKind(types.Int)
	v["verifI64"] = nondetOfKind(types.Int64)
	v["verifI32"] = nondetOfKind(types.Int32)
	v["verifBool"] = nondetOfKind(types.Bool)
	v["verifBytes"] = func(fr *frame, args []value) value {
		name := args[0].(string)
		n := int(asInt64(args[1]))
		base := EX.freshName(name)
		out := make([]value, n)
		for i := range out {
			t := mkVar(fmt.Sprintf("%s[%d]", base, i), 8)
			EX.noteInput(t)
			if EX.concrete != nil {
				out[i] = uint8(EX.concrete.Eval(t))
			} else {
				out[i] = sym{t, types.Uint8}
			}
		}
		return out
	}
	v["verifChoice"] = func(fr *frame, args []value) value {
		return EX.Choose(int(asInt64(args[1])), args[0].(string))
	}
	v["verifAssume"] = func(fr *frame, args []value) value {
		t, _, _ := scalarTerm(args[0])
		EX.Assume(t)
		return nil
	}
	v["verifAssert"] = func(fr *frame, args []value) value {
		t, _, _ := scalarTerm(args[0])
		EX.Assert(t, args[1].(string), posOf(fr))
		return nil
	}
	v["verifFail"] = func(fr *frame, args []value) value {
		EX.Assert(tFalse, args[0].(string), posOf(fr))
		return nil
	}
	v["verifReach"] = func(fr *frame, args []value) value {
		EX.Stats.ReachLabels[args[0].(string)]++
		return nil
	}
	v["verifKnownFinding"] = func(fr *frame, args []value) value {
		t, _, _ := scalarTerm(args[1])
		EX.KnownFinding(args[0].(string), t)
		return nil
	}
	// verifUF8(name, idx) : byte of an arbitrary (but fixed) array at a symbolic index
	v["verifUF8"] = func(fr *frame, args []value) value {
		it, k, _ := scalarTerm(args[1])
		_, sg := kindWidth(k)
		t := mkUF(args[0].(string), 8, tResize(it, 64, sg))
		EX.noteInput(t)
		if EX.concrete != nil {
			return uint8(EX.concrete.Eval(t))
		}
		return mkVal(t, types.Uint8)
	}
	// verifUF64(name, x) : uninterpreted 64-bit function of a 64-bit argument
	v["verifUF64"] = func(fr *frame, args []value) value {
		it, k, _ := scalarTerm(args[1])
		_, sg := kindWidth(k)
		t := mkUF(args[0].(string), 64, tResize(it, 64, sg))
		EX.noteInput(t)
		if EX.concrete != nil {
			return EX.concrete.Eval(t)
		}
		return mkVal(t, types.Uint64)
	}
	v["verifParam"] = func(fr *frame, args []value) value {
		if x, ok := EX.Params[args[0].(string)]; ok {
			return x
		}
		return args[1]
	}
	v["verifMapOrderNondet"] = func(fr *frame, args []value) value {
		EX.MapOrderNondet = args[0].(bool)
		return nil
	}
	v["verifAllocLimit"] = func(fr *frame, args []value) value {
		EX.Lim.AllocLimit = asInt64(args[0])
		return nil
	}
	v["verifSymbolic"] = func(fr *frame, args []value) value { return true }
	v["verifIsConcrete"] = func(fr *frame, args []value) value {
		return !hasSym(args[0].(iface).v)
	}
	v["verifObserve"] = func(fr *frame, args []value) value {
		EX.obsLog = append(EX.obsLog, args[0].(string))
		return nil
	}
	v["verifTrace"] = func(fr *frame, args []value) value {
		if os.Getenv("SYMGO_TRACE") != "" {
			var sb strings.Builder
			for _, a := range args[1].([]value) {
				sb.WriteString(" ")
				sb.WriteString(toString(a.(iface).v))
			}
			fmt.Fprintf(os.Stderr, "TRACE %s:%s\n", args[0].(string), sb.String())
		}
		return nil
	}
	// verifConcretize*(x): force a concrete value (forks over feasible values)
	v["verifConcU64"] = func(fr *frame, args []value) value { return concretize(args[0], "verifConcU64") }
	v["verifConcInt"] = func(fr *frame, args []value) value { return concretize(args[0], "verifConcInt") }
	// verifIte64(c, a, b)
	v["verifIteU64"] = func(fr *frame, args []value) value { return selectV(args[0], args[1], args[2]) }
	v["verifYield"] = func(fr *frame, args []value) value {
		sched.yield(curG(fr), "verifYield")
		return nil
	}
	v["verifLeaked"] = func(fr *frame, args []value) value {
		n := 0
		for _, g := range sched.gs[1:] {
			if !g.done {
				n++
			}
		}
		return n
	}
}

// findMethod returns the method named name (exported) of dynamic type t, or nil.
func findMethod(i *interpreter, t types.Type, name string) *ssa.Function {
	if t == nil {
		return nil
	}
	if f := engineMethod(i, t, name); f != nil {
		return f
	}
	sel := i.prog.MethodSets.MethodSet(t).Lookup(nil, name)
	if sel == nil {
		return nil
	}
	return i.prog.MethodValue(sel)
}
