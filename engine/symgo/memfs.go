package symgo

// memfs: an in-memory model of *os.File and a few os functions. Files never fail except for
// the documented end-of-file behaviour of Read/ReadAt; contents are []value (bytes may be
// symbolic), lengths and offsets are concrete (a symbolic offset is concretised).

import (
	"fmt"
	"go/token"
	"go/types"
	"strings"
)

type memFile struct {
	name string
	data []value
}

type openFile struct {
	mf     *memFile
	pos    int64
	closed bool
	append bool
}

type memFS struct {
	files map[string]*memFile
	open  map[*value]*openFile
	tmp   int
	notExist value
}

var mfs *memFS

func newMemFS() *memFS { return &memFS{files: map[string]*memFile{}, open: map[*value]*openFile{}} }

var (
	fileInfoT  *types.Named
	pathErrorT *types.Named
)

func initMemfsTypes(i *interpreter) {
	if fileInfoT != nil {
		return
	}
	obj := types.NewTypeName(token.NoPos, rtPkg, "fileInfo", nil)
	st := types.NewStruct([]*types.Var{
		types.NewField(token.NoPos, rtPkg, "name", types.Typ[types.String], false),
		types.NewField(token.NoPos, rtPkg, "size", types.Typ[types.Int64], false),
	}, nil)
	fileInfoT = types.NewNamed(obj, st, nil)
	add := func(name string, res types.Type, impl externalFn) {
		recv := types.NewVar(token.NoPos, rtPkg, "fi", types.NewPointer(fileInfoT))
		sig := types.NewSignatureType(recv, nil, nil, nil, types.NewTuple(types.NewVar(token.NoPos, rtPkg, "", res)), false)
		fileInfoT.AddMethod(types.NewFunc(token.NoPos, rtPkg, name, sig))
		fname := "(*symgo/rt.fileInfo)." + name
		engineFns["fileInfo."+name] = i.prog.NewFunction(name, sig, "engine")
		externals[fname] = impl
	}
	add("Size", types.Typ[types.Int64], func(fr *frame, args []value) value { return (*args[0].(*value)).(structure)[1] })
	add("Name", types.Typ[types.String], func(fr *frame, args []value) value { return (*args[0].(*value)).(structure)[0] })
	add("IsDir", types.Typ[types.Bool], func(fr *frame, args []value) value { return false })
}

func errNotExist(fr *frame) value {
	// os.ErrNotExist if the os package's globals are reachable, else an engine error
	if osp := fr.i.prog.ImportedPackage("io/fs"); osp != nil {
		if g := osp.Var("ErrNotExist"); g != nil {
			if c, ok := fr.i.globals[g]; ok {
				if e, ok := (*c).(iface); ok && e.t != nil {
					return e
				}
			}
		}
	}
	// one stable value per path, so that os.IsNotExist / errors.Is recognise it
	if mfs.notExist == nil {
		mfs.notExist = newEngineError("file does not exist", nil)
	}
	return mfs.notExist
}

func newFileValue(mf *memFile, appendMode bool) value {
	cell := value(structure{(*value)(nil)})
	p := &cell
	of := &openFile{mf: mf, append: appendMode}
	mfs.open[p] = of
	return p
}

func getOpen(v value) *openFile {
	p, _ := v.(*value)
	if p == nil {
		panic(targetPanicMsg("runtime error: invalid memory address or nil pointer dereference (nil *os.File)"))
	}
	of := mfs.open[p]
	if of == nil {
		panic(pathAbort{"unsupported", "operation on an *os.File that was not created through the memfs model"})
	}
	return of
}

func ioEOF(fr *frame) value {
	if iop := fr.i.prog.ImportedPackage("io"); iop != nil {
		if g := iop.Var("EOF"); g != nil {
			cellp := fr.get(g).(*value)
			if e, ok := (*cellp).(iface); ok && e.t != nil {
				return e
			}
			// io is not a source root: create a stable engine error and store it as io.EOF
			e := newEngineError("EOF", nil)
			*cellp = e
			return e
		}
	}
	return newEngineError("EOF", nil)
}

func errClosed() value { return newEngineError("file already closed", nil) }

func init() {
	e := externals
	openFn := func(fr *frame, name string, create, trunc, appendMode bool) value {
		stub("memfs (model of *os.File: in-memory, no I/O errors)")
		mf := mfs.files[name]
		if mf == nil {
			if !create {
				return tuple{(*value)(nil), errNotExist(fr)}
			}
			mf = &memFile{name: name}
			mfs.files[name] = mf
		} else if trunc {
			mf.data = nil
		}
		return tuple{newFileValue(mf, appendMode), iface{}}
	}
	e["os.Create"] = func(fr *frame, args []value) value { return openFn(fr, args[0].(string), true, true, false) }
	e["os.Open"] = func(fr *frame, args []value) value { return openFn(fr, args[0].(string), false, false, false) }
	e["os.OpenFile"] = func(fr *frame, args []value) value {
		flag := int(asInt64(args[1]))
		const oCREATE, oTRUNC, oAPPEND = 0x40, 0x200, 0x400
		return openFn(fr, args[0].(string), flag&oCREATE != 0, flag&oTRUNC != 0, flag&oAPPEND != 0)
	}
	e["os.CreateTemp"] = func(fr *frame, args []value) value {
		mfs.tmp++
		name := fmt.Sprintf("%s/tmp-%s-%d", args[0].(string), strings.ReplaceAll(args[1].(string), "*", ""), mfs.tmp)
		return openFn(fr, name, true, true, false)
	}
	e["os.MkdirTemp"] = func(fr *frame, args []value) value {
		mfs.tmp++
		return tuple{fmt.Sprintf("/memfs/tmpdir-%d", mfs.tmp), iface{}}
	}
	e["os.TempDir"] = func(fr *frame, args []value) value { return "/memfs/tmp" }
	e["os.MkdirAll"] = func(fr *frame, args []value) value { return iface{} }
	e["os.Remove"] = func(fr *frame, args []value) value {
		delete(mfs.files, args[0].(string))
		return iface{}
	}
	e["os.RemoveAll"] = func(fr *frame, args []value) value {
		pre := args[0].(string)
		for k := range mfs.files {
			if strings.HasPrefix(k, pre) {
				delete(mfs.files, k)
			}
		}
		return iface{}
	}
	e["os.Rename"] = func(fr *frame, args []value) value {
		if mf := mfs.files[args[0].(string)]; mf != nil {
			delete(mfs.files, args[0].(string))
			mf.name = args[1].(string)
			mfs.files[mf.name] = mf
			return iface{}
		}
		return errNotExist(fr)
	}
	statOf := func(fr *frame, mf *memFile) value {
		initMemfsTypes(fr.i)
		cell := value(structure{mf.name, int64(len(mf.data))})
		return iface{t: types.NewPointer(fileInfoT), v: &cell}
	}
	e["os.Stat"] = func(fr *frame, args []value) value {
		mf := mfs.files[args[0].(string)]
		if mf == nil {
			return tuple{iface{}, errNotExist(fr)}
		}
		return tuple{statOf(fr, mf), iface{}}
	}
	e["os.IsNotExist"] = func(fr *frame, args []value) value {
		er := args[0].(iface)
		return er.t != nil && extErrorsIs(fr, er, errNotExist(fr).(iface))
	}
	e["os.ReadFile"] = func(fr *frame, args []value) value {
		mf := mfs.files[args[0].(string)]
		if mf == nil {
			return tuple{[]value(nil), errNotExist(fr)}
		}
		return tuple{append([]value{}, mf.data...), iface{}}
	}
	e["os.WriteFile"] = func(fr *frame, args []value) value {
		name := args[0].(string)
		mfs.files[name] = &memFile{name: name, data: append([]value{}, args[1].([]value)...)}
		return iface{}
	}
	e["(*os.File).Name"] = func(fr *frame, args []value) value { return getOpen(args[0]).mf.name }
	e["(*os.File).Close"] = func(fr *frame, args []value) value {
		of := getOpen(args[0])
		if of.closed {
			return errClosed()
		}
		of.closed = true
		return iface{}
	}
	e["(*os.File).Sync"] = func(fr *frame, args []value) value { return iface{} }
	e["(*os.File).Fd"] = func(fr *frame, args []value) value { return uintptr(3) }
	e["(*os.File).Stat"] = func(fr *frame, args []value) value {
		of := getOpen(args[0])
		if of.closed {
			return tuple{iface{}, errClosed()}
		}
		return tuple{statOf(fr, of.mf), iface{}}
	}
	e["(*os.File).Truncate"] = func(fr *frame, args []value) value {
		of := getOpen(args[0])
		n := int(asInt64(args[1]))
		for len(of.mf.data) < n {
			of.mf.data = append(of.mf.data, uint8(0))
		}
		of.mf.data = of.mf.data[:n]
		return iface{}
	}
	e["(*os.File).Seek"] = func(fr *frame, args []value) value {
		of := getOpen(args[0])
		off := asInt64(args[1])
		switch asInt64(args[2]) {
		case 0:
			of.pos = off
		case 1:
			of.pos += off
		case 2:
			of.pos = int64(len(of.mf.data)) + off
		}
		if of.pos < 0 {
			of.pos = 0
			return tuple{int64(0), newEngineError("seek: invalid argument", nil)}
		}
		return tuple{of.pos, iface{}}
	}
	readAt := func(fr *frame, of *openFile, b []value, off int64) (int, value) {
		if of.closed {
			return 0, errClosed()
		}
		if off < 0 {
			return 0, newEngineError("readat: negative offset", nil)
		}
		n := 0
		for n < len(b) && off+int64(n) < int64(len(of.mf.data)) {
			b[n] = of.mf.data[off+int64(n)]
			n++
		}
		if n < len(b) {
			return n, ioEOF(fr)
		}
		return n, iface{}
	}
	e["(*os.File).ReadAt"] = func(fr *frame, args []value) value {
		of := getOpen(args[0])
		n, err := readAt(fr, of, args[1].([]value), asInt64(args[2]))
		return tuple{n, err}
	}
	e["(*os.File).Read"] = func(fr *frame, args []value) value {
		of := getOpen(args[0])
		b := args[1].([]value)
		if len(b) == 0 {
			return tuple{0, iface{}}
		}
		n, err := readAt(fr, of, b, of.pos)
		of.pos += int64(n)
		if n > 0 {
			err = iface{} // Read returns n>0 with nil error; EOF on the next call
		}
		return tuple{n, err}
	}
	writeAt := func(of *openFile, b []value, off int64) {
		for int64(len(of.mf.data)) < off+int64(len(b)) {
			of.mf.data = append(of.mf.data, uint8(0))
		}
		copy(of.mf.data[off:], b)
	}
	e["(*os.File).WriteAt"] = func(fr *frame, args []value) value {
		of := getOpen(args[0])
		if of.closed {
			return tuple{0, errClosed()}
		}
		b := args[1].([]value)
		writeAt(of, b, asInt64(args[2]))
		return tuple{len(b), iface{}}
	}
	e["(*os.File).Write"] = func(fr *frame, args []value) value {
		of := getOpen(args[0])
		if of.closed {
			return tuple{0, errClosed()}
		}
		b := args[1].([]value)
		if of.append {
			of.pos = int64(len(of.mf.data))
		}
		writeAt(of, b, of.pos)
		of.pos += int64(len(b))
		return tuple{len(b), iface{}}
	}
	e["(*os.File).WriteString"] = func(fr *frame, args []value) value {
		of := getOpen(args[0])
		s := args[1].(string)
		b := make([]value, len(s))
		for i := range b {
			b[i] = s[i]
		}
		if of.append {
			of.pos = int64(len(of.mf.data))
		}
		writeAt(of, b, of.pos)
		of.pos += int64(len(b))
		return tuple{len(b), iface{}}
	}
	// harness helpers
	verifIntrinsics["verifMemFile"] = func(fr *frame, args []value) value {
		name := args[0].(string)
		mfs.files[name] = &memFile{name: name, data: append([]value{}, args[1].([]value)...)}
		return nil
	}
	verifIntrinsics["verifMemFileBytes"] = func(fr *frame, args []value) value {
		mf := mfs.files[args[0].(string)]
		if mf == nil {
			return []value(nil)
		}
		return append([]value{}, mf.data...)
	}
	verifIntrinsics["verifTempPath"] = func(fr *frame, args []value) value { return "/memfs/" + args[0].(string) }
}
