package symgo

// Models added for property C12 (parsers of external data never crash).
//
// c12Redirect: library callees outside the package under test (go-cid's CID parsers,
// fxamacker/cbor's reflection-driven decoder, the assembly-backed xxhash) are replaced by model
// functions written as ordinary Go in the C12 harness of the package under test (same mechanism
// as redirectToHarness of C01 / c11Redirect, chaining to an earlier registration for the same
// callee). Without a harness function of that name the entries behave as if they did not exist.
// Every such replacement is a cut and is listed in the "assumes" of the obligation using it.

import (
	"go/token"
	"go/types"
)

func c12Redirect(ext, harness string) {
	prev := externals[ext]
	var self externalFn
	self = func(fr *frame, args []value) value {
		if h := harnessFunc(fr.i, harness); h != nil {
			stub(ext + " (cut: model function " + harness + " of the harness)")
			return call(fr.i, fr, token.NoPos, h, args)
		}
		if prev != nil {
			return prev(fr, args)
		}
		fn := fr.fn
		if fn.Blocks == nil {
			if fr.i.initializing {
				return opaqueResult(fn)
			}
			panic(pathAbort{"unsupported", "no model for external function " + fn.String()})
		}
		skipExternalOnce = fn // run the real body (the externals lookup is cached per function)
		return callSSA(fr.i, fr.caller, token.NoPos, fn, args, nil)
	}
	externals[ext] = self
}

// c12CanonBasic: byte/rune are aliases of uint8/int32 (identical types) but go/types keeps
// separate *Basic objects named "byte"/"rune" for them. A reflect.TypeOf model that keys its
// canonical type objects by type string makes reflect.TypeOf(byte(0)) != reflect.TypeOf(uint8(0)),
// which gagliardetto/binary checks in an init() (panic "typeOfByte != typeOfUint8"). Wrap
// whatever model is installed and canonicalise basic alias types first.
func c12CanonBasic() {
	prev := externals["reflect.TypeOf"]
	if prev == nil {
		return
	}
	externals["reflect.TypeOf"] = func(fr *frame, args []value) value {
		if len(args) == 1 {
			if x, ok := args[0].(iface); ok && x.t != nil {
				if b, ok := x.t.(*types.Basic); ok && b.Kind() > types.Invalid && b.Kind() < types.UntypedBool {
					x.t = types.Typ[b.Kind()]
					args = []value{x}
				}
			}
		}
		return prev(fr, args)
	}
}

func init() {
	c12CanonBasic()
	// verifC12Cid(): a defined (non-Undef) cid.Cid for harness-side CID models; cid.Cid is
	// struct{ str string } with an unexported field, so a harness outside go-cid can only build
	// the zero value (= cid.Undef). Natively the harness function returns cid.Undef.
	verifIntrinsics["verifC12Cid"] = func(fr *frame, args []value) value {
		return structure{"\x01\x71\x12\x00 (C12 model cid)"}
	}
	c12Redirect("github.com/ipfs/go-cid.Cast", "c12Model_cidCast")
	c12Redirect("github.com/ipfs/go-cid.CidFromBytes", "c12Model_cidFromBytes")
	c12Redirect("github.com/ipfs/go-cid.CidFromReader", "c12Model_cidFromReader")
	c12Redirect("github.com/fxamacker/cbor/v2.NewDecoder", "c12Model_cborNewDecoder")
	c12Redirect("(*github.com/fxamacker/cbor/v2.Decoder).Decode", "c12Model_cborDecode")
	c12Redirect("github.com/cespare/xxhash/v2.Sum64", "c12Model_xxhashSum64")
	c12Redirect("(*github.com/rpcpool/yellowstone-faithful/indexes.PubkeyToOffsetAndSize_Reader).Get", "c12Model_pubkeyGet")
	c12Redirect("github.com/rpcpool/yellowstone-faithful/compactindexsized.EntryHash64", "c12Model_entryHash64")
	c12Redirect("github.com/rpcpool/yellowstone-faithful/deprecated/compactindex36.EntryHash64", "c12Model_entryHash64")
}
