package symgo

// Models added for property C12 (parsers of external data never crash).
//
// c12Redirect: library callees outside the package under test (go-cid's CID parsers,
// fxamacker/cbor's reflection-driven decoder, the assembly-backed xxhash) are replaced by model
// functions written as ordinary Go in the C12 harness of the package under test (same mechanism
// as redirectToHarness of C01 / c11Redirect, chaining to an earlier registration for the same
// callee). Without a harness function of that name the entries behave as if they did not exist.
// Every such replacement is a cut and is listed in the "assumes" of the obligation using it.

import (
	"go/token"
)

func c12Redirect(ext, harness string) {
	prev := externals[ext]
	var self externalFn
	self = func(fr *frame, args []value) value {
		if h := harnessFunc(fr.i, harness); h != nil {
			stub(ext + " (cut: model function " + harness + " of the harness)")
			return call(fr.i, fr, token.NoPos, h, args)
		}
		if prev != nil {
			return prev(fr, args)
		}
		fn := fr.fn
		if fn.Blocks == nil {
			if fr.i.initializing {
				return opaqueResult(fn)
			}
			panic(pathAbort{"unsupported", "no model for external function " + fn.String()})
		}
		skipExternalOnce = fn // run the real body (the externals lookup is cached per function)
		return callSSA(fr.i, fr.caller, token.NoPos, fn, args, nil)
	}
	externals[ext] = self
}

func init() {
	c12Redirect("github.com/ipfs/go-cid.Cast", "c12Model_cidCast")
	c12Redirect("github.com/ipfs/go-cid.CidFromBytes", "c12Model_cidFromBytes")
	c12Redirect("github.com/ipfs/go-cid.CidFromReader", "c12Model_cidFromReader")
	c12Redirect("github.com/fxamacker/cbor/v2.NewDecoder", "c12Model_cborNewDecoder")
	c12Redirect("(*github.com/fxamacker/cbor/v2.Decoder).Decode", "c12Model_cborDecode")
	c12Redirect("github.com/cespare/xxhash/v2.Sum64", "c12Model_xxhashSum64")
}
