package symgo

// Lock-trace extraction and SMT-based interleaving check (bounded model checking with the
// schedule as a symbolic variable).
//
// Phase 1 (trace extraction): every operation of an API is executed alone, symbolically, with
// Explorer.TraceSync set: mutex operations do not block but are recorded, giving for each
// path of each operation its sequence of Lock/Unlock/RLock/RUnlock events per mutex.
// Phase 2: for a set of threads (one trace each) the interleaving semantics of Go's
// sync.RWMutex (writer preference: a blocked Lock excludes new readers) is encoded as a
// transition system unrolled for N = (#events + #Lock events) steps; the thread chosen at each
// step is a free SMT variable. The solver is asked for a reachable state in which some thread
// is unfinished and no unfinished thread can move (deadlock). unsat = no schedule deadlocks.

import (
	"fmt"
	"strings"
)

type SyncEv struct {
	Obj int    `json:"obj"`
	Op  string `json:"op"` // L U R V  (Lock, Unlock, RLock, RUnlock)
}

type SyncTrace struct {
	Choices map[string]uint64 `json:"choices"`
	Events  []SyncEv          `json:"events"`
}

func (ex *Explorer) recordSync(m *mutexState, op string) {
	if ex.syncObj == nil {
		ex.syncObj = map[*mutexState]int{}
	}
	id, ok := ex.syncObj[m]
	if !ok {
		id = len(ex.syncObj)
		ex.syncObj[m] = id
	}
	ex.syncTrace = append(ex.syncTrace, SyncEv{id, op})
}

func (t SyncTrace) String() string {
	var sb strings.Builder
	for _, e := range t.Events {
		fmt.Fprintf(&sb, "%s%d ", e.Op, e.Obj)
	}
	return strings.TrimSpace(sb.String())
}

// DeadlockSMT returns the SMT-LIB2 text of the bounded reachability query for the given
// threads, and the number of steps unrolled.
func DeadlockSMT(threads []SyncTrace) (string, int) {
	nobj := 0
	steps := 0
	for _, t := range threads {
		for _, e := range t.Events {
			if e.Obj+1 > nobj {
				nobj = e.Obj + 1
			}
			steps++
			if e.Op == "L" {
				steps++ // registration as a waiting writer may take a step of its own
			}
		}
	}
	var sb strings.Builder
	w := func(f string, a ...interface{}) { fmt.Fprintf(&sb, f+"\n", a...) }
	k := len(threads)
	// state variables per step t: pc_i (Int), reg_i (Bool: registered as waiting writer),
	// w_o (Bool), r_o (Int), ww_o (Int); choice c_t (Int)
	for t := 0; t <= steps; t++ {
		for i := 0; i < k; i++ {
			w("(declare-const pc_%d_%d Int)", i, t)
			w("(declare-const reg_%d_%d Bool)", i, t)
		}
		for o := 0; o < nobj; o++ {
			w("(declare-const w_%d_%d Bool)", o, t)
			w("(declare-const r_%d_%d Int)", o, t)
			w("(declare-const ww_%d_%d Int)", o, t)
		}
		if t < steps {
			w("(declare-const c_%d Int)", t)
		}
	}
	// initial state
	for i := 0; i < k; i++ {
		w("(assert (and (= pc_%d_0 0) (not reg_%d_0)))", i, i)
	}
	for o := 0; o < nobj; o++ {
		w("(assert (and (not w_%d_0) (= r_%d_0 0) (= ww_%d_0 0)))", o, o, o)
	}
	// canMove_i_t : thread i can take a step in state t
	canMove := func(i, t int) string {
		var alts []string
		for p, e := range threads[i].Events {
			o := e.Obj
			var c string
			switch e.Op {
			case "L":
				// either acquire, or (not yet registered) register as waiting
				c = fmt.Sprintf("(or (and (not w_%d_%d) (= r_%d_%d 0)) (not reg_%d_%d))", o, t, o, t, i, t)
			case "R":
				c = fmt.Sprintf("(and (not w_%d_%d) (= ww_%d_%d 0))", o, t, o, t)
			default:
				c = "true"
			}
			alts = append(alts, fmt.Sprintf("(and (= pc_%d_%d %d) %s)", i, t, p, c))
		}
		if len(alts) == 0 {
			return "false"
		}
		return "(or " + strings.Join(alts, " ") + ")"
	}
	unfinished := func(i, t int) string { return fmt.Sprintf("(< pc_%d_%d %d)", i, t, len(threads[i].Events)) }
	// transitions
	for t := 0; t < steps; t++ {
		w("(assert (and (>= c_%d 0) (< c_%d %d)))", t, t, k)
		var anyMove []string
		for i := 0; i < k; i++ {
			anyMove = append(anyMove, canMove(i, t))
		}
		// if nobody can move the state stutters
		var frameAll []string
		for i := 0; i < k; i++ {
			frameAll = append(frameAll, fmt.Sprintf("(= pc_%d_%d pc_%d_%d) (= reg_%d_%d reg_%d_%d)", i, t+1, i, t, i, t+1, i, t))
		}
		for o := 0; o < nobj; o++ {
			frameAll = append(frameAll, fmt.Sprintf("(= w_%d_%d w_%d_%d) (= r_%d_%d r_%d_%d) (= ww_%d_%d ww_%d_%d)", o, t+1, o, t, o, t+1, o, t, o, t+1, o, t))
		}
		stutter := "(and " + strings.Join(frameAll, " ") + ")"
		var cases []string
		for i := 0; i < k; i++ {
			var evCases []string
			for p, e := range threads[i].Events {
				o := e.Obj
				// frame for other threads and other objects
				var fr []string
				for j := 0; j < k; j++ {
					if j != i {
						fr = append(fr, fmt.Sprintf("(= pc_%d_%d pc_%d_%d) (= reg_%d_%d reg_%d_%d)", j, t+1, j, t, j, t+1, j, t))
					}
				}
				for q := 0; q < nobj; q++ {
					if q != o {
						fr = append(fr, fmt.Sprintf("(= w_%d_%d w_%d_%d) (= r_%d_%d r_%d_%d) (= ww_%d_%d ww_%d_%d)", q, t+1, q, t, q, t+1, q, t, q, t+1, q, t))
					}
				}
				frame := strings.Join(fr, " ")
				at := fmt.Sprintf("(= pc_%d_%d %d)", i, t, p)
				adv := fmt.Sprintf("(= pc_%d_%d %d) (not reg_%d_%d)", i, t+1, p+1, i, t+1)
				var eff string
				switch e.Op {
				case "L":
					acquire := fmt.Sprintf("(and (not w_%d_%d) (= r_%d_%d 0) %s w_%d_%d (= r_%d_%d 0) (= ww_%d_%d (ite reg_%d_%d (- ww_%d_%d 1) ww_%d_%d)))",
						o, t, o, t, adv, o, t+1, o, t+1, o, t+1, i, t, o, t, o, t)
					register := fmt.Sprintf("(and (or w_%d_%d (> r_%d_%d 0)) (not reg_%d_%d) (= pc_%d_%d %d) reg_%d_%d (= w_%d_%d w_%d_%d) (= r_%d_%d r_%d_%d) (= ww_%d_%d (+ ww_%d_%d 1)))",
						o, t, o, t, i, t, i, t+1, p, i, t+1, o, t+1, o, t, o, t+1, o, t, o, t+1, o, t)
					eff = "(or " + acquire + " " + register + ")"
				case "U":
					eff = fmt.Sprintf("(and %s (not w_%d_%d) (= r_%d_%d r_%d_%d) (= ww_%d_%d ww_%d_%d))", adv, o, t+1, o, t+1, o, t, o, t+1, o, t)
				case "R":
					eff = fmt.Sprintf("(and (not w_%d_%d) (= ww_%d_%d 0) %s (= w_%d_%d w_%d_%d) (= r_%d_%d (+ r_%d_%d 1)) (= ww_%d_%d ww_%d_%d))",
						o, t, o, t, adv, o, t+1, o, t, o, t+1, o, t, o, t+1, o, t)
				case "V":
					eff = fmt.Sprintf("(and %s (= w_%d_%d w_%d_%d) (= r_%d_%d (- r_%d_%d 1)) (= ww_%d_%d ww_%d_%d))", adv, o, t+1, o, t, o, t+1, o, t, o, t+1, o, t)
				}
				evCases = append(evCases, fmt.Sprintf("(and %s %s %s)", at, eff, frame))
			}
			if len(evCases) > 0 {
				cases = append(cases, fmt.Sprintf("(and (= c_%d %d) %s (or %s))", t, i, canMove(i, t), strings.Join(evCases, " ")))
			}
		}
		// the chosen thread must be able to move if anybody can; otherwise stutter
		w("(assert (ite (or %s) (or %s) %s))", strings.Join(anyMove, " "), strings.Join(cases, " "), stutter)
	}
	// deadlock reachable at some step
	var dl []string
	for t := 0; t <= steps; t++ {
		var someUnf, noneMoves []string
		for i := 0; i < k; i++ {
			someUnf = append(someUnf, unfinished(i, t))
			noneMoves = append(noneMoves, fmt.Sprintf("(not %s)", canMove(i, t)))
		}
		dl = append(dl, fmt.Sprintf("(and (or %s) %s)", strings.Join(someUnf, " "), strings.Join(noneMoves, " ")))
	}
	w("(assert (or %s))", strings.Join(dl, " "))
	return sb.String(), steps
}

// CheckRaw decides a self-contained SMT-LIB2 problem (declarations + assertions) and, when
// sat, returns the values of the named Int constants.
func (s *Solver) CheckRaw(text string, want []string) (SatResult, map[string]int64, error) {
	s.Queries++
	s.send("(push 1)")
	s.send(text)
	s.send("(check-sat)")
	line, err := s.readLine()
	if err != nil {
		return Unknown, nil, err
	}
	var res SatResult
	switch line {
	case "sat":
		res = Sat
		s.NSat++
	case "unsat":
		res = Unsat
		s.NUnsat++
	default:
		s.NUnknown++
		s.send("(pop 1)")
		if strings.HasPrefix(line, "(error") {
			return Unknown, nil, fmt.Errorf("solver: %s", line)
		}
		return Unknown, nil, nil
	}
	vals := map[string]int64{}
	if res == Sat && len(want) > 0 {
		s.send("(get-value (" + strings.Join(want, " ") + "))")
		txt, err := s.readSexp()
		if err == nil {
			toks := tokenize(txt)
			for i := 0; i+1 < len(toks); i++ {
				for _, n := range want {
					if toks[i] == n {
						var v int64
						if _, e := fmt.Sscanf(toks[i+1], "%d", &v); e == nil {
							vals[n] = v
						}
					}
				}
			}
		}
	}
	s.send("(pop 1)")
	return res, vals, nil
}
