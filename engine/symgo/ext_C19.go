package symgo

// Models added for property C19 (streaming a slot range).

import "strings"

func init() {
	// google.golang.org/grpc/status.Code(err): counterpart of the status.Errorf / status.Error model
	// of ext_C03.go (an engine error whose text is "rpc error: code = <Name> desc = ..."):
	//   nil error                         -> codes.OK
	//   error created by status.Errorf    -> its code
	//   any other error                   -> codes.Unknown
	// (The real function also unwraps errors that wrap a status error; harnesses that rely on this
	// model must hand over status errors unwrapped.)
	const name = "google.golang.org/grpc/status.Code"
	if externals[name] == nil {
		externals[name] = func(fr *frame, args []value) value {
			stub("grpc/status.Code (model: code parsed from the text produced by the status.Errorf model; nil -> OK; other errors -> Unknown)")
			e, _ := args[0].(iface)
			if e.t == nil {
				return uint32(0)
			}
			msg := errorMessage(fr, e)
			const pfx = "rpc error: code = "
			if strings.HasPrefix(msg, pfx) {
				rest := msg[len(pfx):]
				for i, n := range grpcCodeNames {
					if strings.HasPrefix(rest, n+" desc = ") {
						return uint32(i)
					}
				}
			}
			return uint32(2)
		}
	}
}

func init() {
	// Generated protobuf getter (*old_faithful_grpc.Transaction).GetTransaction: the package cannot be
	// a source root (it instantiates grpc generics). Exact model of
	//   func (x *Transaction) GetTransaction() []byte { if x != nil { return x.Transaction }; return nil }
	// (field 3 after state, sizeCache, unknownFields).
	const name = "(*github.com/rpcpool/yellowstone-faithful/old-faithful-proto/old-faithful-grpc.Transaction).GetTransaction"
	if externals[name] == nil {
		externals[name] = func(fr *frame, args []value) value {
			stub("old_faithful_grpc.Transaction.GetTransaction (model: exact, nil-safe field read)")
			p, _ := args[0].(*value)
			if p == nil {
				return []value(nil)
			}
			return (*p).(structure)[3]
		}
	}
}
