package symgo

// Models added for property C03.

import (
	"go/types"
)

func init() {
	// context.WithValue: the real body calls internal/reflectlite.TypeOf(key).Comparable(), which has
	// no SSA body. The model builds the same *context.valueCtx (so the real (*valueCtx).Value runs)
	// and skips only the nil-parent / nil-key / non-comparable-key panics.
	if externals["context.WithValue"] == nil {
		externals["context.WithValue"] = func(fr *frame, args []value) value {
			stub("context.WithValue (model: builds *context.valueCtx without the key comparability check)")
			pkg := fr.i.prog.ImportedPackage("context")
			if pkg == nil || pkg.Type("valueCtx") == nil {
				panic(pathAbort{"unsupported", "context.WithValue: package context is not a source root"})
			}
			vt := pkg.Type("valueCtx").Type()
			cell := value(structure{args[0], args[1], args[2]})
			return iface{t: types.NewPointer(vt), v: &cell}
		}
	}
}
