package symgo

// Models added for property C03.

import (
	"go/types"
)

func init() {
	// context.WithValue: the real body calls internal/reflectlite.TypeOf(key).Comparable(), which has
	// no SSA body. The model builds the same *context.valueCtx (so the real (*valueCtx).Value runs)
	// and skips only the nil-parent / nil-key / non-comparable-key panics.
	if externals["context.WithValue"] == nil {
		externals["context.WithValue"] = func(fr *frame, args []value) value {
			stub("context.WithValue (model: builds *context.valueCtx without the key comparability check)")
			pkg := fr.i.prog.ImportedPackage("context")
			if pkg == nil || pkg.Type("valueCtx") == nil {
				panic(pathAbort{"unsupported", "context.WithValue: package context is not a source root"})
			}
			vt := pkg.Type("valueCtx").Type()
			cell := value(structure{args[0], args[1], args[2]})
			return iface{t: types.NewPointer(vt), v: &cell}
		}
	}
}

// grpcCodeNames: google.golang.org/grpc/codes.Code -> canonical name (codes.Code.String()).
var grpcCodeNames = []string{"OK", "Canceled", "Unknown", "InvalidArgument", "DeadlineExceeded", "NotFound",
	"AlreadyExists", "PermissionDenied", "ResourceExhausted", "FailedPrecondition", "Aborted", "OutOfRange",
	"Unimplemented", "Internal", "Unavailable", "DataLoss", "Unauthenticated"}

func grpcCodeName(v value) string {
	c, ok := v.(uint32)
	if !ok {
		return "Code(<sym>)"
	}
	if int(c) < len(grpcCodeNames) {
		return grpcCodeNames[c]
	}
	return "Code(?)"
}

func init() {
	// google.golang.org/grpc/status.Errorf / Error: the real ones build a protobuf Status. The model
	// is an engine error whose text is the real one ("rpc error: code = <Name> desc = <msg>");
	// harnesses recognise the code by that text. status.Code(nil) / OK are not modelled.
	if externals["google.golang.org/grpc/status.Errorf"] == nil {
		externals["google.golang.org/grpc/status.Errorf"] = func(fr *frame, args []value) value {
			stub("grpc/status.Errorf (model: error with text 'rpc error: code = <Name> desc = ...')")
			msg, _ := formatMsg(fr, args[1].(string), args[2].([]value))
			return newEngineError("rpc error: code = "+grpcCodeName(args[0])+" desc = "+msg, nil)
		}
	}
	if externals["google.golang.org/grpc/status.Error"] == nil {
		externals["google.golang.org/grpc/status.Error"] = func(fr *frame, args []value) value {
			stub("grpc/status.Error (model: error with text 'rpc error: code = <Name> desc = ...')")
			return newEngineError("rpc error: code = "+grpcCodeName(args[0])+" desc = "+args[1].(string), nil)
		}
	}
}

func init() {
	// solana.SignatureFromBytes: copies at most 64 bytes into a zeroed [64]byte (exact model of the
	// library function; package solana-go is too large to be a source root).
	const sfb = "github.com/gagliardetto/solana-go.SignatureFromBytes"
	if externals[sfb] == nil {
		externals[sfb] = func(fr *frame, args []value) value {
			stub("solana.SignatureFromBytes (model: exact, copy of at most 64 bytes)")
			in, _ := args[0].([]value)
			out := make(array, 64)
			for i := range out {
				if i < len(in) {
					out[i] = in[i]
				} else {
					out[i] = uint8(0)
				}
			}
			return out
		}
	}
}

// ---------------------------------------------------------------------------
// github.com/allegro/bigcache/v3 as a string-keyed byte-slice map (no eviction, no hash
// collisions: bigcache stores the key with the entry and answers ErrEntryNotFound on a mismatch).
// Package bigcache must be a source root (its init creates ErrEntryNotFound).

var (
	bcOwner  *memFS // the tables belong to one path (memfs is re-created per path)
	bcTables map[*value]map[string][]value
)

func bcTable(p *value) map[string][]value {
	if bcOwner != mfs || bcTables == nil {
		bcOwner, bcTables = mfs, map[*value]map[string][]value{}
	}
	t := bcTables[p]
	if t == nil {
		t = map[string][]value{}
		bcTables[p] = t
	}
	return t
}

func init() {
	const bc = "github.com/allegro/bigcache/v3"
	if externals[bc+".New"] != nil {
		return
	}
	externals[bc+".New"] = func(fr *frame, args []value) value {
		stub("bigcache (model: string-keyed map, entries copied, no eviction)")
		pkg := fr.i.prog.ImportedPackage(bc)
		if pkg == nil || pkg.Type("BigCache") == nil {
			panic(pathAbort{"unsupported", "bigcache.New: package bigcache is not loaded"})
		}
		cell := zero(pkg.Type("BigCache").Type())
		return tuple{&cell, iface{}}
	}
	externals["(*"+bc+".BigCache).Set"] = func(fr *frame, args []value) value {
		p := args[0].(*value)
		if p == nil {
			panic(targetPanicMsg("runtime error: invalid memory address or nil pointer dereference (bigcache.Set)"))
		}
		src, _ := args[2].([]value)
		bcTable(p)[args[1].(string)] = append([]value{}, src...)
		return iface{}
	}
	externals["(*"+bc+".BigCache).Get"] = func(fr *frame, args []value) value {
		p := args[0].(*value)
		if p == nil {
			panic(targetPanicMsg("runtime error: invalid memory address or nil pointer dereference (bigcache.Get)"))
		}
		if e, ok := bcTable(p)[args[1].(string)]; ok {
			return tuple{append([]value{}, e...), iface{}}
		}
		pkg := fr.i.prog.ImportedPackage(bc)
		if g := pkg.Var("ErrEntryNotFound"); g != nil {
			if c, ok := fr.i.globals[g]; ok {
				if e, ok := (*c).(iface); ok && e.t != nil {
					return tuple{[]value(nil), e}
				}
			}
		}
		panic(pathAbort{"unsupported", "bigcache.Get: ErrEntryNotFound is not initialised (make github.com/allegro/bigcache/v3 a source root)"})
	}
}

func init() {
	// solana.PublicKey.Bytes: `return []byte(p[:])` (exact model; solana-go is not a source root).
	const pkb = "(github.com/gagliardetto/solana-go.PublicKey).Bytes"
	if externals[pkb] == nil {
		externals[pkb] = func(fr *frame, args []value) value {
			stub("solana.PublicKey.Bytes (model: exact, copy of the 32 bytes)")
			a := args[0].(array)
			return append([]value{}, a...)
		}
	}
}

// c03Base58: standard (bitcoin alphabet) base58, as mr-tron/base58.Encode.
func c03Base58(b []byte) string {
	const alphabet = "123456789ABCDEFGHJKLMNPQRSTUVWXYZabcdefghijkmnopqrstuvwxyz"
	zeros := 0
	for zeros < len(b) && b[zeros] == 0 {
		zeros++
	}
	num := append([]byte{}, b...)
	var out []byte
	for start := zeros; start < len(num); {
		rem := 0
		for i := start; i < len(num); i++ {
			acc := rem*256 + int(num[i])
			num[i] = byte(acc / 58)
			rem = acc % 58
		}
		out = append(out, alphabet[rem])
		for start < len(num) && num[start] == 0 {
			start++
		}
	}
	for i := 0; i < zeros; i++ {
		out = append(out, '1')
	}
	for i, j := 0, len(out)-1; i < j; i, j = i+1, j-1 {
		out[i], out[j] = out[j], out[i]
	}
	return string(out)
}

func init() {
	// solana.Hash.String() = base58.Encode(h[:]) (exact model for a concrete hash; solana-go is not a
	// source root).
	const hs = "(github.com/gagliardetto/solana-go.Hash).String"
	if externals[hs] == nil {
		externals[hs] = func(fr *frame, args []value) value {
			stub("solana.Hash.String (model: exact base58 of the concretised 32 bytes)")
			in := args[0].(array)
			b := make([]byte, len(in))
			for i := range in {
				b[i] = concretize(in[i], "hash byte").(uint8)
			}
			return c03Base58(b)
		}
	}
}

func init() {
	// (solana.Message).IsVersioned: `return m.version != MessageVersionLegacy` (exact model reading the
	// unexported field; solana-go is not a source root of the C03 handler obligations because its
	// Signature.String would enumerate symbolic signatures in error texts).
	const iv = "(github.com/gagliardetto/solana-go.Message).IsVersioned"
	if externals[iv] == nil {
		externals[iv] = func(fr *frame, args []value) value {
			stub("solana.Message.IsVersioned (model: exact, version field != legacy)")
			m, _ := args[0].(structure)
			if st, ok := fr.fn.Signature.Recv().Type().Underlying().(*types.Struct); ok && m != nil {
				for i := 0; i < st.NumFields(); i++ {
					if st.Field(i).Name() == "version" {
						return !truth(equalsV(st.Field(i).Type(), m[i], zero(st.Field(i).Type())))
					}
				}
			}
			panic(pathAbort{"unsupported", "solana.Message.IsVersioned: field version not found"})
		}
	}
}
