package symgo

// Models added for property C03.

import (
	"go/types"
)

func init() {
	// context.WithValue: the real body calls internal/reflectlite.TypeOf(key).Comparable(), which has
	// no SSA body. The model builds the same *context.valueCtx (so the real (*valueCtx).Value runs)
	// and skips only the nil-parent / nil-key / non-comparable-key panics.
	if externals["context.WithValue"] == nil {
		externals["context.WithValue"] = func(fr *frame, args []value) value {
			stub("context.WithValue (model: builds *context.valueCtx without the key comparability check)")
			pkg := fr.i.prog.ImportedPackage("context")
			if pkg == nil || pkg.Type("valueCtx") == nil {
				panic(pathAbort{"unsupported", "context.WithValue: package context is not a source root"})
			}
			vt := pkg.Type("valueCtx").Type()
			cell := value(structure{args[0], args[1], args[2]})
			return iface{t: types.NewPointer(vt), v: &cell}
		}
	}
}

// grpcCodeNames: google.golang.org/grpc/codes.Code -> canonical name (codes.Code.String()).
var grpcCodeNames = []string{"OK", "Canceled", "Unknown", "InvalidArgument", "DeadlineExceeded", "NotFound",
	"AlreadyExists", "PermissionDenied", "ResourceExhausted", "FailedPrecondition", "Aborted", "OutOfRange",
	"Unimplemented", "Internal", "Unavailable", "DataLoss", "Unauthenticated"}

func grpcCodeName(v value) string {
	c, ok := v.(uint32)
	if !ok {
		return "Code(<sym>)"
	}
	if int(c) < len(grpcCodeNames) {
		return grpcCodeNames[c]
	}
	return "Code(?)"
}

func init() {
	// google.golang.org/grpc/status.Errorf / Error: the real ones build a protobuf Status. The model
	// is an engine error whose text is the real one ("rpc error: code = <Name> desc = <msg>");
	// harnesses recognise the code by that text. status.Code(nil) / OK are not modelled.
	if externals["google.golang.org/grpc/status.Errorf"] == nil {
		externals["google.golang.org/grpc/status.Errorf"] = func(fr *frame, args []value) value {
			stub("grpc/status.Errorf (model: error with text 'rpc error: code = <Name> desc = ...')")
			msg, _ := formatMsg(fr, args[1].(string), args[2].([]value))
			return newEngineError("rpc error: code = "+grpcCodeName(args[0])+" desc = "+msg, nil)
		}
	}
	if externals["google.golang.org/grpc/status.Error"] == nil {
		externals["google.golang.org/grpc/status.Error"] = func(fr *frame, args []value) value {
			stub("grpc/status.Error (model: error with text 'rpc error: code = <Name> desc = ...')")
			return newEngineError("rpc error: code = "+grpcCodeName(args[0])+" desc = "+args[1].(string), nil)
		}
	}
}

func init() {
	// solana.SignatureFromBytes: copies at most 64 bytes into a zeroed [64]byte (exact model of the
	// library function; package solana-go is too large to be a source root).
	const sfb = "github.com/gagliardetto/solana-go.SignatureFromBytes"
	if externals[sfb] == nil {
		externals[sfb] = func(fr *frame, args []value) value {
			stub("solana.SignatureFromBytes (model: exact, copy of at most 64 bytes)")
			in, _ := args[0].([]value)
			out := make(array, 64)
			for i := range out {
				if i < len(in) {
					out[i] = in[i]
				} else {
					out[i] = uint8(0)
				}
			}
			return out
		}
	}
}
