// Copyright 2013 The Go Authors. All rights reserved.
// Use of this source code is governed by a BSD-style
// license that can be found in the LICENSE file.

// Package ssa/interp defines an interpreter for the SSA
// representation of Go programs.
//
// This interpreter is provided as an adjunct for testing the SSA
// construction algorithm.  Its purpose is to provide a minimal
// metacircular implementation of the dynamic semantics of each SSA
// instruction.  It is not, and will never be, a production-quality Go
// interpreter.
//
// The following is a partial list of Go features that are currently
// unsupported or incomplete in the interpreter.
//
// * Unsafe operations, including all uses of unsafe.Pointer, are
// impossible to support given the "boxed" value representation we
// have chosen.
//
// * The reflect package is only partially implemented.
//
// * The "testing" package is no longer supported because it
// depends on low-level details that change too often.
//
// * "sync/atomic" operations are not atomic due to the "boxed" value
// representation: it is not possible to read, modify and write an
// interface value atomically. As a consequence, Mutexes are currently
// broken.
//
// * recover is only partially implemented.  Also, the interpreter
// makes no attempt to distinguish target panics from interpreter
// crashes.
//
// * the sizes of the int, uint and uintptr types in the target
// program are assumed to be the same as those of the interpreter
// itself.
//
// * all values occupy space, even those of types defined by the spec
// to have zero size, e.g. struct{}.  This can cause asymptotic
// performance degradation.
//
// * os.Exit is implemented using panic, causing deferred functions to
// run.
package symgo

import (
	"fmt"
	"go/token"
	"go/types"
	"log"
	"os"
	"runtime"
	"slices"

	"golang.org/x/tools/go/ssa"
)

type continuation int

const (
	kNext continuation = iota
	kReturn
	kJump
)

// Mode is a bitmask of options affecting the interpreter.
type Mode uint

const (
	DisableRecover Mode = 1 << iota // Disable recover() in target programs; show interpreter crash instead.
	EnableTracing                   // Print a trace of all instructions as they are interpreted.
)

type methodSet map[string]*ssa.Function

// State shared between all interpreted goroutines.
type interpreter struct {
	initializing       bool
	osArgs             []value                // the value of os.Args
	prog               *ssa.Program           // the SSA program
	globals            map[*ssa.Global]*value // addresses of global variables (immutable)
	mode               Mode                   // interpreter options
	runtimeErrorString types.Type             // the runtime.errorString type
	sizes              types.Sizes            // the effective type-sizing function
	globalList         []*ssa.Global
}

type deferred struct {
	fn    value
	args  []value
	instr *ssa.Defer
	tail  *deferred
}

type frame struct {
	i                *interpreter
	caller           *frame
	fn               *ssa.Function
	block, prevBlock *ssa.BasicBlock
	env              map[ssa.Value]value // dynamic values of SSA variables
	locals           []value
	defers           *deferred
	result           value
	panicking        bool
	panic            interface{}
	phitemps         []value // temporaries for parallel phi assignment
	symIfs           map[*ssa.If]int // symbolic decisions per branch instruction (unwinding bound)
	g                *gor            // goroutine this frame runs on
}

func (fr *frame) get(key ssa.Value) value {
	switch key := key.(type) {
	case nil:
		// Hack; simplifies handling of optional attributes
		// such as ssa.Slice.{Low,High}.
		return nil
	case *ssa.Function, *ssa.Builtin:
		return key
	case *ssa.Const:
		return constValue(key)
	case *ssa.Global:
		if r, ok := fr.i.globals[key]; ok {
			return r
		}
		cell := zero(mustDeref(key.Type()))
		if !fr.i.initializing && !globalInitialisable(key) {
			// a variable of a package that is not a source root is never initialised (its init
			// has no body): a nil error sentinel / nil pointer would silently change behaviour.
			switch mustDeref(key.Type()).Underlying().(type) {
			case *types.Interface, *types.Pointer, *types.Signature, *types.Map, *types.Chan:
				cell = uninitGlobal{key.String()}
			}
		}
		fr.i.globals[key] = &cell
		return &cell
	}
	if r, ok := fr.env[key]; ok {
		return r
	}
	panic(fmt.Sprintf("get: no value for %T: %v", key, key.Name()))
}

// runDefer runs a deferred call d.
// It always returns normally, but may set or clear fr.panic.
func (fr *frame) runDefer(d *deferred) {
	if fr.i.mode&EnableTracing != 0 {
		fmt.Fprintf(os.Stderr, "%s: invoking deferred function call\n",
			fr.i.prog.Fset.Position(d.instr.Pos()))
	}
	var ok bool
	defer func() {
		if !ok {
			// Deferred call created a new state of panic.
			fr.panicking = true
			fr.panic = recover()
		}
	}()
	call(fr.i, fr, d.instr.Pos(), d.fn, d.args)
	ok = true
}

// runDefers executes fr's deferred function calls in LIFO order.
//
// On entry, fr.panicking indicates a state of panic; if
// true, fr.panic contains the panic value.
//
// On completion, if a deferred call started a panic, or if no
// deferred call recovered from a previous state of panic, then
// runDefers itself panics after the last deferred call has run.
//
// If there was no initial state of panic, or it was recovered from,
// runDefers returns normally.
func (fr *frame) runDefers() {
	for d := fr.defers; d != nil; d = d.tail {
		fr.runDefer(d)
	}
	fr.defers = nil
	if fr.panicking {
		panic(fr.panic) // new panic, or still panicking
	}
}

// lookupMethod returns the method set for type typ, which may be one
// of the interpreter's fake types.
func lookupMethod(i *interpreter, typ types.Type, meth *types.Func) *ssa.Function {
	if f := engineMethod(i, typ, meth.Name()); f != nil {
		return f
	}
	return i.prog.LookupMethod(typ, meth.Pkg(), meth.Name())
}

// visitInstr interprets a single ssa.Instruction within the activation
// record frame.  It returns a continuation value indicating where to
// read the next instruction from.
func visitInstr(fr *frame, instr ssa.Instruction) continuation {
	switch instr := instr.(type) {
	case *ssa.DebugRef:
		// no-op

	case *ssa.UnOp:
		x := fr.get(instr.X)
		if race != nil && race.on && instr.Op == token.MUL {
			if p, ok := x.(*value); ok && p != nil && EX.RaceCheck {
				race.read(fr, p, instr.Pos())
			}
		}
		fr.env[instr] = unop(fr, instr, x)

	case *ssa.BinOp:
		fr.env[instr] = binop(instr.Op, instr.X.Type(), fr.get(instr.X), fr.get(instr.Y))

	case *ssa.Call:
		fn, args := prepareCall(fr, &instr.Call)
		fr.env[instr] = call(fr.i, fr, instr.Pos(), fn, args)

	case *ssa.ChangeInterface:
		fr.env[instr] = fr.get(instr.X)

	case *ssa.ChangeType:
		fr.env[instr] = fr.get(instr.X) // (can't fail)

	case *ssa.Convert:
		fr.env[instr] = conv(instr.Type(), instr.X.Type(), fr.get(instr.X))

	case *ssa.SliceToArrayPointer:
		fr.env[instr] = sliceToArrayPointer(instr.Type(), instr.X.Type(), fr.get(instr.X))

	case *ssa.MakeInterface:
		fr.env[instr] = iface{t: instr.X.Type(), v: fr.get(instr.X)}

	case *ssa.Extract:
		fr.env[instr] = fr.get(instr.Tuple).(tuple)[instr.Index]

	case *ssa.Slice:
		fr.env[instr] = slice(fr.get(instr.X), fr.get(instr.Low), fr.get(instr.High), fr.get(instr.Max))

	case *ssa.MultiConvert:
		fr.env[instr] = conv(instr.Type(), instr.X.Type(), fr.get(instr.X))

	case *ssa.Return:
		switch len(instr.Results) {
		case 0:
		case 1:
			fr.result = fr.get(instr.Results[0])
		default:
			var res []value
			for _, r := range instr.Results {
				res = append(res, fr.get(r))
			}
			fr.result = tuple(res)
		}
		fr.block = nil
		return kReturn

	case *ssa.RunDefers:
		fr.runDefers()

	case *ssa.Panic:
		panic(targetPanic{fr.get(instr.X)})

	case *ssa.Send:
		chanSend(fr, fr.get(instr.Chan).(*symchan), fr.get(instr.X))

	case *ssa.Store:
		addr := fr.get(instr.Addr).(*value)
		if race != nil && race.on && addr != nil && EX.RaceCheck {
			race.write(fr, addr, instr.Pos())
		}
		store(mustDeref(instr.Addr.Type()), addr, fr.get(instr.Val))

	case *ssa.If:
		succ := 1
		c := fr.get(instr.Cond)
		if s, ok := c.(sym); ok {
			if fr.symIfs == nil {
				fr.symIfs = map[*ssa.If]int{}
			}
			fr.symIfs[instr]++
			if EX.Lim.Unwind > 0 && fr.symIfs[instr] > EX.Lim.Unwind && EX.concrete == nil {
				panic(pathAbort{"unwind", fmt.Sprintf("symbolic branch at %s decided more than %d times in one activation of %s", fr.i.prog.Fset.Position(instr.Pos()), EX.Lim.Unwind, fr.fn)})
			}
			if EX.Branch(s.t) {
				succ = 0
			}
		} else if b, isBool := c.(bool); !isBool {
			panic(pathAbort{"unsupported", fmt.Sprintf("branch on a non-boolean value %T (result of an unmodelled call?) in %s at %s", c, fr.fn, fr.i.prog.Fset.Position(instr.Cond.Pos()))})
		} else if b {
			succ = 0
		}
		fr.prevBlock, fr.block = fr.block, fr.block.Succs[succ]
		return kJump

	case *ssa.Jump:
		fr.prevBlock, fr.block = fr.block, fr.block.Succs[0]
		return kJump

	case *ssa.Defer:
		fn, args := prepareCall(fr, &instr.Call)
		defers := &fr.defers
		if into := fr.get(instr.DeferStack); into != nil {
			defers = into.(**deferred)
		}
		*defers = &deferred{
			fn:    fn,
			args:  args,
			instr: instr,
			tail:  *defers,
		}

	case *ssa.Go:
		fn, args := prepareCall(fr, &instr.Call)
		spawn(fr, instr.Pos(), fn, args)

	case *ssa.MakeChan:
		fr.env[instr] = newChan(int(asInt64(fr.get(instr.Size))))

	case *ssa.Alloc:
		var addr *value
		if instr.Heap {
			// new
			addr = new(value)
			fr.env[instr] = addr
		} else {
			// local
			addr = fr.env[instr].(*value)
		}
		*addr = zero(mustDeref(instr.Type()))

	case *ssa.MakeSlice:
		tElt := instr.Type().Underlying().(*types.Slice).Elem()
		ln, cp := makeSizes(fr, instr, fr.get(instr.Len), fr.get(instr.Cap), fr.i.sizes.Sizeof(tElt))
		slice := make([]value, cp)
		for i := range slice {
			slice[i] = zero(tElt)
		}
		fr.env[instr] = slice[:ln]

	case *ssa.MakeMap:
		var reserve int64
		if instr.Reserve != nil {
			reserve = asInt64(fr.get(instr.Reserve))
		}
		if !fitsInt(reserve, fr.i.sizes) {
			panic(fmt.Sprintf("ssa.MakeMap.Reserve value %d does not fit in int", reserve))
		}
		fr.env[instr] = makeMap(instr.Type().Underlying().(*types.Map).Key(), reserve)

	case *ssa.Range:
		x := fr.get(instr.X)
		if m, ok := x.(*omap); ok && m != nil && race != nil && race.on && EX.RaceCheck {
			race.read(fr, m, instr.Pos())
		}
		fr.env[instr] = rangeIter(x, instr.X.Type())

	case *ssa.Next:
		fr.env[instr] = fr.get(instr.Iter).(iter).next()

	case *ssa.FieldAddr:
		p := fr.get(instr.X).(*value)
		if p == nil {
			panic(targetPanicMsg("runtime error: invalid memory address or nil pointer dereference"))
		}
		st, ok := (*p).(structure)
		if !ok {
			panic(pathAbort{"unsupported", fmt.Sprintf("field access on opaque value %v at %s", *p, fr.i.prog.Fset.Position(instr.Pos()))})
		}
		fr.env[instr] = &st[instr.Field]

	case *ssa.Field:
		fr.env[instr] = fr.get(instr.X).(structure)[instr.Field]

	case *ssa.IndexAddr:
		x := fr.get(instr.X)
		idx := fr.get(instr.Index)
		switch x := x.(type) {
		case []value:
			fr.env[instr] = &x[checkedIndex(idx, len(x))]
		case *value: // *array
			if x == nil {
				panic(targetPanicMsg("runtime error: invalid memory address or nil pointer dereference"))
			}
			a := (*x).(array)
			fr.env[instr] = &a[checkedIndex(idx, len(a))]
		default:
			panic(fmt.Sprintf("unexpected x type in IndexAddr: %T", x))
		}

	case *ssa.Index:
		x := fr.get(instr.X)
		idx := fr.get(instr.Index)

		switch x := x.(type) {
		case array:
			fr.env[instr] = x[checkedIndex(idx, len(x))]
		case string:
			fr.env[instr] = x[checkedIndex(idx, len(x))]
		default:
			panic(fmt.Sprintf("unexpected x type in Index: %T", x))
		}

	case *ssa.Lookup:
		x := fr.get(instr.X)
		if m, ok := x.(*omap); ok && m != nil && race != nil && race.on && EX.RaceCheck {
			race.read(fr, m, instr.Pos())
		}
		fr.env[instr] = lookup(instr, x, fr.get(instr.Index))

	case *ssa.MapUpdate:
		m := fr.get(instr.Map)
		key := fr.get(instr.Key)
		v := fr.get(instr.Value)
		switch m := m.(type) {
		case *omap:
			if m != nil && race != nil && race.on && EX.RaceCheck {
				race.write(fr, m, instr.Pos())
			}
			m.insert(key, v)
		default:
			panic(fmt.Sprintf("illegal map type: %T", m))
		}

	case *ssa.TypeAssert:
		fr.env[instr] = typeAssert(fr.i, instr, fr.get(instr.X).(iface))

	case *ssa.MakeClosure:
		var bindings []value
		for _, binding := range instr.Bindings {
			bindings = append(bindings, fr.get(binding))
		}
		fr.env[instr] = &closure{instr.Fn.(*ssa.Function), bindings}

	case *ssa.Phi:
		log.Fatal("unreachable") // phis are processed at block entry

	case *ssa.Select:
		fr.env[instr] = doSelect(fr, instr)

	default:
		panic(fmt.Sprintf("unexpected instruction: %T", instr))
	}

	// if val, ok := instr.(ssa.Value); ok {
	// 	fmt.Println(toString(fr.env[val])) // debugging
	// }

	return kNext
}

// uninitGlobal marks the content of a global of a package without source (never initialised).
// Storing into the variable replaces the marker; loading it aborts the path as unsupported.
type uninitGlobal struct{ name string }

var globalOKCache = map[*ssa.Global]bool{}

// globalInitialisable reports whether g belongs to a package whose init function has a body
// (a source root), or is on the short list of library variables that are safe as zero values.
func globalInitialisable(g *ssa.Global) bool {
	if ok, seen := globalOKCache[g]; seen {
		return ok
	}
	ok := false
	if g.Pkg != nil {
		if f := g.Pkg.Func("init"); f != nil && f.Blocks != nil {
			ok = true
		}
		switch g.Pkg.Pkg.Path() {
		case "github.com/rpcpool/yellowstone-faithful/metrics", "os", "k8s.io/klog/v2", "log", "runtime", "testing", "flag", "time", "sync", "unicode", "reflect", "internal/godebug", "internal/poll", "syscall":
			ok = true
		}
	}
	globalOKCache[g] = ok
	return ok
}

// visitInstrInit is visitInstr during package initialisation: an engine-level failure of one
// instruction (an operation on an opaque token of an unmodelled library) makes the
// instruction's result opaque instead of failing the run.
func visitInstrInit(fr *frame, instr ssa.Instruction) (k continuation) {
	defer func() {
		r := recover()
		if r == nil {
			return
		}
		switch r.(type) {
		case pathAbort, gorKill, targetPanic, rtPanic:
			panic(r)
		}
		if _, isIf := instr.(*ssa.If); isIf {
			fr.prevBlock, fr.block = fr.block, fr.block.Succs[1]
			k = kJump
			return
		}
		if v, ok := instr.(ssa.Value); ok {
			if b, isBasic := v.Type().Underlying().(*types.Basic); isBasic && b.Kind() != types.UnsafePointer && b.Info()&types.IsUntyped == 0 {
				fr.env[v] = zero(b) // same policy as opaqueResult: scalars of unmodelled init code are zero
			} else {
				fr.env[v] = opaque{"init"}
			}
		}
		k = kNext
	}()
	return visitInstr(fr, instr)
}

// prepareCall determines the function value and argument values for a
// function call in a Call, Go or Defer instruction, performing
// interface method lookup if needed.
func prepareCall(fr *frame, call *ssa.CallCommon) (fn value, args []value) {
	v := fr.get(call.Value)
	if call.Method == nil {
		// Function call.
		fn = v
	} else {
		// Interface method invocation.
		recv := v.(iface)
		if recv.t == nil {
			if nf := noopNilIfaceMethod(fr.i, call.Method); nf != nil {
				// method of a no-op'd library (metrics, logging) on the nil result of a no-op'd constructor
				fn = nf
				args = append(args, recv.v)
				for _, arg := range call.Args {
					args = append(args, fr.get(arg))
				}
				return
			}
			if fr.i.initializing {
				panic("method invoked on nil interface") // permissive package initialisation: result becomes opaque
			}
			// Go: calling a method on a nil interface value is a run-time panic of the program under test
			panic(targetPanicMsg("runtime error: invalid memory address or nil pointer dereference (method call on nil interface)"))
		}
		if f := lookupMethod(fr.i, recv.t, call.Method); f == nil {
			// Unreachable in well-typed programs.
			panic(fmt.Sprintf("method set for dynamic type %v does not contain %s", recv.t, call.Method))
		} else {
			fn = f
		}
		args = append(args, recv.v)
	}
	for _, arg := range call.Args {
		args = append(args, fr.get(arg))
	}
	return
}

// call interprets a call to a function (function, builtin or closure)
// fn with arguments args, returning its result.
// callpos is the position of the callsite.
func call(i *interpreter, caller *frame, callpos token.Pos, fn value, args []value) value {
	switch fn := fn.(type) {
	case *ssa.Function:
		if fn == nil {
			panic(targetPanicMsg("runtime error: invalid memory address or nil pointer dereference (call of nil func)"))
		}
		return callSSA(i, caller, callpos, fn, args, nil)
	case *closure:
		return callSSA(i, caller, callpos, fn.Fn, args, fn.Env)
	case *ssa.Builtin:
		return callBuiltin(caller, callpos, fn, args)
	}
	panic(fmt.Sprintf("cannot call %T", fn))
}

func loc(fset *token.FileSet, pos token.Pos) string {
	if pos == token.NoPos {
		return ""
	}
	return " at " + fset.Position(pos).String()
}

// callSSA interprets a call to function fn with arguments args,
// and lexical environment env, returning its result.
// callpos is the position of the callsite.
func callSSA(i *interpreter, caller *frame, callpos token.Pos, fn *ssa.Function, args []value, env []value) value {
	if i.mode&EnableTracing != 0 {
		fset := fn.Prog.Fset
		fmt.Fprintf(os.Stderr, "Entering %s%s.\n", fn, loc(fset, fn.Pos()))
		suffix := ""
		if caller != nil {
			suffix = ", resuming " + caller.fn.String() + loc(fset, callpos)
		}
		defer fmt.Fprintf(os.Stderr, "Leaving %s%s.\n", fn, suffix)
	}
	fr := &frame{
		i:      i,
		caller: caller, // for panic/recover
		fn:     fn,
	}
	if caller != nil {
		fr.g = caller.g
	}
	if fn.Parent() == nil && skipExternalOnce == fn {
		skipExternalOnce = nil // a model asked for the real body of fn
	} else if fn.Parent() == nil {
		if ext := findExternalCached(fn); ext != nil {
			if i.mode&EnableTracing != 0 {
				fmt.Fprintln(os.Stderr, "\t(external)")
			}
			return ext(fr, args)
		}
		if fn.Blocks == nil {
			if i.initializing {
				return opaqueResult(fn)
			}
			panic(pathAbort{"unsupported", "no model for external function " + fn.String() + loc(fn.Prog.Fset, callpos)})
		}
	}

	// generic function body?
	if fn.TypeParams().Len() > 0 && len(fn.TypeArgs()) == 0 {
		panic("interp requires ssa.BuilderMode to include InstantiateGenerics to execute generics")
	}
	if EX != nil && !i.initializing {
		if n := fnName(fn); !EX.Funcs[n] {
			EX.Funcs[n] = true
		}
	}

	fr.env = make(map[ssa.Value]value, envSize(fn))
	fr.block = fn.Blocks[0]
	fr.locals = make([]value, len(fn.Locals))
	for i, l := range fn.Locals {
		fr.locals[i] = zero(mustDeref(l.Type()))
		fr.env[l] = &fr.locals[i]
	}
	for i, p := range fn.Params {
		fr.env[p] = args[i]
	}
	for i, fv := range fn.FreeVars {
		fr.env[fv] = env[i]
	}
	for fr.block != nil {
		runFrame(fr)
	}
	// Destroy the locals to avoid accidental use after return.
	for i := range fn.Locals {
		fr.locals[i] = bad{}
	}
	return fr.result
}

// skipExternalOnce makes the next callSSA of this function bypass the externals table (used by
// models that fall through to the real body).
var skipExternalOnce *ssa.Function

var (
	funcSeen = map[*ssa.Function]bool{}
	envSizes = map[*ssa.Function]int{}
	extCache = map[*ssa.Function]externalFn{}
	extNone  = map[*ssa.Function]bool{}
	// functions with a body whose model comes from the externals table (may be unregistered temporarily)
	extFromTable = map[*ssa.Function]bool{}
)

// envSize returns the number of SSA values of fn (to pre-size the frame environment).
func envSize(fn *ssa.Function) int {
	if n, ok := envSizes[fn]; ok {
		return n
	}
	n := len(fn.Params) + len(fn.FreeVars) + len(fn.Locals)
	for _, b := range fn.Blocks {
		for _, in := range b.Instrs {
			if _, ok := in.(ssa.Value); ok {
				n++
			}
		}
	}
	envSizes[fn] = n
	return n
}

func findExternalCached(fn *ssa.Function) externalFn {
	if e, ok := extCache[fn]; ok {
		if extFromTable[fn] && externals[fnName(fn)] == nil {
			// a redirector (ext_C06/C08/C11/C12/C14/C16: `delete(externals, ext)` + callSSA)
			// unregistered itself to fall through to the real body: do not serve the stale entry
			return findExternal(fn)
		}
		return e
	}
	if extNone[fn] {
		return nil
	}
	e := findExternal(fn)
	if e == nil {
		extNone[fn] = true
	} else {
		extCache[fn] = e
		if fn.Blocks != nil && externals[fnName(fn)] != nil {
			extFromTable[fn] = true
		}
	}
	return e
}

// isEnginePanic reports whether a recovered value must unwind through target frames without
// running target defers / recover (end of path, goroutine kill, engine failure).
func isEnginePanic(p interface{}) bool {
	switch p.(type) {
	case pathAbort, gorKill, engineBug:
		return true
	case *runtime.TypeAssertionError:
		return true
	case string:
		return true // the engine's own "unexpected ..." panics
	}
	return false
}

type engineBug struct{ msg string }

// runFrame executes SSA instructions starting at fr.block and
// continuing until a return, a panic, or a recovered panic.
func runFrame(fr *frame) {
	defer func() {
		if fr.block == nil {
			return // normal return
		}
		p := recover()
		if isEnginePanic(p) {
			panic(p)
		}
		fr.panicking = true
		fr.panic = p
		if fr.i.mode&EnableTracing != 0 {
			fmt.Fprintf(os.Stderr, "Panicking: %T %v.\n", fr.panic, fr.panic)
		}
		fr.runDefers()
		fr.block = fr.fn.Recover
	}()

	for {
		if fr.i.mode&EnableTracing != 0 {
			fmt.Fprintf(os.Stderr, ".%s:\n", fr.block)
		}

		nonPhis := executePhis(fr)
		for _, instr := range nonPhis {
			if fr.i.mode&EnableTracing != 0 {
				if v, ok := instr.(ssa.Value); ok {
					fmt.Fprintln(os.Stderr, "\t", v.Name(), "=", instr)
				} else {
					fmt.Fprintln(os.Stderr, "\t", instr)
				}
			}
			if EX != nil {
				EX.steps++
				if EX.Lim.MaxSteps > 0 && EX.steps > EX.Lim.MaxSteps {
					panic(pathAbort{"budget", fmt.Sprintf("instruction budget %d exhausted in %s", EX.Lim.MaxSteps, fr.fn)})
				}
			}
			var k continuation
			if fr.i.initializing {
				k = visitInstrInit(fr, instr)
			} else {
				k = visitInstr(fr, instr)
			}
			if k == kReturn {
				return
			}
			if k == kJump {
				break
			}
			// Inv: kNext (continue) or kJump (last instr)
		}
	}
}

// executePhis executes the phi-nodes at the start of the current
// block and returns the non-phi instructions.
func executePhis(fr *frame) []ssa.Instruction {
	firstNonPhi := -1
	for i, instr := range fr.block.Instrs {
		if _, ok := instr.(*ssa.Phi); !ok {
			firstNonPhi = i
			break
		}
	}
	// Inv: 0 <= firstNonPhi; every block contains a non-phi.

	nonPhis := fr.block.Instrs[firstNonPhi:]
	if firstNonPhi > 0 {
		phis := fr.block.Instrs[:firstNonPhi]
		predIndex := slices.Index(fr.block.Preds, fr.prevBlock)
		fr.phitemps = fr.phitemps[:0]
		for _, phi := range phis {
			phi := phi.(*ssa.Phi)
			fr.phitemps = append(fr.phitemps, fr.get(phi.Edges[predIndex]))
		}
		for i, phi := range phis {
			fr.env[phi.(*ssa.Phi)] = fr.phitemps[i]
		}
	}
	return nonPhis
}

// doRecover implements the recover() built-in.
func doRecover(caller *frame) value {
	// recover() must be exactly one level beneath the deferred
	// function (two levels beneath the panicking function) to
	// have any effect.  Thus we ignore both "defer recover()" and
	// "defer f() -> g() -> recover()".
	if caller.i.mode&DisableRecover == 0 &&
		caller != nil && !caller.panicking &&
		caller.caller != nil && caller.caller.panicking {
		caller.caller.panicking = false
		p := caller.caller.panic
		caller.caller.panic = nil

		switch p := p.(type) {
		case targetPanic:
			// The target program explicitly called panic().
			return p.v
		case runtime.Error:
			// The interpreter encountered a runtime error.
			return iface{caller.i.runtimeErrorString, p.Error()}
		case rtPanic:
			return iface{caller.i.runtimeErrorString, string(p)}
		default:
			panic(fmt.Sprintf("unexpected panic type %T in target call to recover()", p))
		}
	}
	return iface{}
}

var _ = log.Fatal
