package symgo

// Models added for property C14 (data-frame reassembly).
//
// hash/crc64: the table-driven implementation indexes a 256-entry table with a data-dependent
// byte; on symbolic data that would concretise every byte (256 paths each). The model is the
// *exact* bit-serial definition of the same reflected CRC (the polynomial is read back from the
// table MakeTable really builds, entry 128), so the result is the same function of the bytes,
// expressed with shifts, ands and xors the solver sees through. On concrete data the terms fold
// to the concrete checksum.

import (
	"go/token"
	"go/types"
	"hash/crc64"
)

func c14CrcUpdate(crc *Term, poly uint64, data []value) *Term {
	one := mkConst(64, 1)
	zero := mkConst(64, 0)
	pt := mkConst(64, poly)
	// all-concrete input (large concrete payloads): the real table-driven implementation
	if crc.IsConst() {
		conc := make([]byte, len(data))
		all := true
		for i, b := range data {
			c, ok := b.(uint8)
			if !ok {
				all = false
				break
			}
			conc[i] = c
		}
		if all {
			return mkConst(64, crc64.Update(crc.ConstVal(), crc64.MakeTable(poly), conc))
		}
	}
	crc = mk(OpBvNot, 64, 0, crc)
	for _, b := range data {
		bt, _, ok := scalarTerm(b)
		if !ok {
			panic(pathAbort{"unsupported", "crc64 model: data element is not a byte"})
		}
		crc = mk(OpBvXor, 64, 0, crc, tResize(bt, 64, false))
		for i := 0; i < 8; i++ {
			lsb := mk(OpBvAnd, 64, 0, crc, one)
			m := mk(OpSub, 64, 0, zero, lsb) // all ones iff the low bit is set
			crc = mk(OpBvXor, 64, 0, mk(OpLShr, 64, 0, crc, one), mk(OpBvAnd, 64, 0, m, pt))
		}
	}
	return mk(OpBvNot, 64, 0, crc)
}

func c14TablePoly(tab value) uint64 {
	p, ok := tab.(*value)
	if !ok || p == nil {
		panic(pathAbort{"unsupported", "crc64 model: nil or foreign *crc64.Table"})
	}
	a, ok := (*p).(array)
	if !ok || len(a) != 256 {
		panic(pathAbort{"unsupported", "crc64 model: table is not a [256]uint64"})
	}
	poly, ok := a[128].(uint64)
	if !ok {
		panic(pathAbort{"unsupported", "crc64 model: symbolic table"})
	}
	return poly
}

func init() {
	externals["hash/crc64.MakeTable"] = func(fr *frame, args []value) value {
		stub("hash/crc64.MakeTable (model: the real table, built natively)")
		poly, ok := args[0].(uint64)
		if !ok {
			panic(pathAbort{"unsupported", "crc64.MakeTable: symbolic polynomial"})
		}
		rt := crc64.MakeTable(poly)
		a := make(array, 256)
		for i := range a {
			a[i] = rt[i]
		}
		cell := value(a)
		return &cell
	}
	externals["hash/crc64.Update"] = func(fr *frame, args []value) value {
		stub("hash/crc64.Update (model: exact bit-serial CRC instead of table lookups)")
		ct, _, _ := scalarTerm(args[0])
		data, _ := args[2].([]value)
		return mkVal(c14CrcUpdate(ct, c14TablePoly(args[1]), data), types.Uint64)
	}
	externals["hash/crc64.Checksum"] = func(fr *frame, args []value) value {
		stub("hash/crc64.Checksum (model: exact bit-serial CRC instead of table lookups)")
		data, _ := args[0].([]value)
		return mkVal(c14CrcUpdate(mkConst(64, 0), c14TablePoly(args[1]), data), types.Uint64)
	}
}

// c14Redirect: a callee outside the package under test is replaced by a model function written
// as ordinary Go in the C14 harness (same mechanism as c06Redirect; chains to an earlier
// registration for the same callee so that two properties can cut the same function).
func c14Redirect(ext, harness string) {
	prev := externals[ext]
	var self externalFn
	self = func(fr *frame, args []value) value {
		if h := harnessFunc(fr.i, harness); h != nil {
			stub(ext + " (cut: model function " + harness + " of the harness)")
			return call(fr.i, fr, token.NoPos, h, args)
		}
		if prev != nil {
			return prev(fr, args)
		}
		fn := fr.fn
		if fn.Blocks == nil {
			if fr.i.initializing {
				return opaqueResult(fn)
			}
			panic(pathAbort{"unsupported", "no model for external function " + fn.String()})
		}
		skipExternalOnce = fn // run the real body (the externals lookup is cached per function)
		return callSSA(fr.i, fr.caller, token.NoPos, fn, args, nil)
	}
	externals[ext] = self
}

func init() {
	const repo = "github.com/rpcpool/yellowstone-faithful/"
	c14Redirect(repo+"iplddecoders.DecodeTransaction", "c14Model_DecodeTransaction")
	c14Redirect(repo+"iplddecoders.DecodeDataFrame", "c14Model_DecodeDataFrame")
	c14Redirect(repo+"solana-tx-meta-parsers.ParseTransactionStatusMetaContainer", "c14Model_ParseMeta")
	c14Redirect(repo+"solana-tx-meta-parsers.ParseAnyTransactionStatusMeta", "c14Model_ParseAnyMeta")
	c14Redirect("github.com/gagliardetto/binary.UnmarshalBin", "c14Model_UnmarshalBin")
	c14Redirect("github.com/fxamacker/cbor/v2.NewDecoder", "c14Model_cborNewDecoder")
	c14Redirect("(*github.com/fxamacker/cbor/v2.Decoder).Decode", "c14Model_cborDecode")
}
