package symgo

// Models added for property C06 (gsfa address index).
//
//  1. tidwall/hashmap.Map: the real (robin-hood) map code is interpreted; only its hasher, which
//     casts the key to a string through unsafe pointers and calls the assembly-backed xxh3, is
//     replaced by FNV-1a over the concrete key bytes (48 bits, like the original), and
//     detectHasher (unsafe.Sizeof on a type parameter) becomes a no-op.
//  2. c06Redirect: callees outside the package under test are replaced by model functions written
//     as ordinary Go in the gsfa harness (same idea as redirectToHarness of C01, but chaining to an
//     earlier registration for the same callee, so that two properties can cut the same function).
//  3. verifC06Timer: the time.After of GsfaWriter.fullBufferWriter under the scheduler, with
//     stutter steps removed (see the comment at the intrinsic).

import (
	"go/token"
	"go/types"

	"golang.org/x/tools/go/ssa"
)

var c06HarnessFuncs = map[*ssa.Program]map[string]*ssa.Function{}

// c06HarnessFunc finds a function with a body by bare name in any loaded package (the harness
// of the package under test).
func c06HarnessFunc(i *interpreter, name string) *ssa.Function {
	m := c06HarnessFuncs[i.prog]
	if m == nil {
		m = map[string]*ssa.Function{}
		c06HarnessFuncs[i.prog] = m
	}
	if f, ok := m[name]; ok {
		return f
	}
	var found *ssa.Function
	for _, p := range i.prog.AllPackages() {
		if f := p.Func(name); f != nil && f.Blocks != nil {
			found = f
			break
		}
	}
	m[name] = found
	return found
}

func c06Redirect(ext, harness string) {
	prev := externals[ext]
	var self externalFn
	self = func(fr *frame, args []value) value {
		if h := c06HarnessFunc(fr.i, harness); h != nil {
			stub(ext + " (cut: model function " + harness + " of the harness)")
			return call(fr.i, fr, token.NoPos, h, args)
		}
		if prev != nil {
			return prev(fr, args)
		}
		fn := fr.fn
		if fn.Blocks == nil {
			if fr.i.initializing {
				return opaqueResult(fn)
			}
			panic(pathAbort{"unsupported", "no model for external function " + fn.String()})
		}
		delete(externals, ext)
		defer func() { externals[ext] = self }()
		return callSSA(fr.i, fr.caller, token.NoPos, fn, args, nil)
	}
	externals[ext] = self
}

func c06KeyBytes(v value, out []byte) []byte {
	switch x := v.(type) {
	case array:
		for _, e := range x {
			out = c06KeyBytes(e, out)
		}
	case uint8:
		out = append(out, x)
	default:
		panic(pathAbort{"unsupported", "hashmap model: key is not a concrete byte array"})
	}
	return out
}

func init() {
	const repo = "github.com/rpcpool/yellowstone-faithful/"
	const pk = "github.com/gagliardetto/solana-go.PublicKey"
	for _, v := range []string{"[2]uint64", "[]*" + repo + "gsfa/linkedlog.OffsetAndSizeAndSlot", "int"} {
		recv := "(*github.com/tidwall/hashmap.Map[" + pk + ", " + v + "])."
		targs := "[" + pk + " " + v + "]" // go/ssa names instantiated methods "(*Map[K, V]).m[K V]"
		externals[recv+"hash"+targs] = func(fr *frame, args []value) value {
			stub("hashmap.Map.hash (model: 48-bit FNV-1a of the key bytes instead of xxh3 through unsafe)")
			h := uint64(14695981039346656037)
			for _, b := range c06KeyBytes(args[1], nil) {
				h ^= uint64(b)
				h *= 1099511628211
			}
			return int(h >> 16)
		}
		externals[recv+"detectHasher"+targs] = func(fr *frame, args []value) value { return nil }
	}

	// the pubkey -> (offset,size) index: compactindexsized is decided by C04; here it is an exact table
	c06Redirect("(*"+repo+"compactindexsized.Builder).Insert", "c06Model_BuilderInsert")
	c06Redirect("(*"+repo+"compactindexsized.Builder).Seal", "c06Model_BuilderSeal")
	c06Redirect("(*"+repo+"compactindexsized.Builder).Close", "c06Model_BuilderClose")
	c06Redirect("(*"+repo+"compactindexsized.DB).Lookup", "c06Model_DBLookup")
	c06Redirect(repo+"compactindexsized.IsNotFound", "c06Model_IsNotFound")
	c06Redirect("(*"+repo+"gsfa/manifest.Manifest).Close", "c06Model_ManifestClose")
	// C06.open drives the real NewGsfaWriter / NewGsfaReader: the manifest and the creation /
	// opening of the pubkey index (metadata, compactindexsized header: C10, C04) are cut
	c06Redirect(repo+"gsfa/manifest.NewManifest", "c06Model_NewManifest")
	c06Redirect(repo+"indexes.NewWriter_PubkeyToOffsetAndSize", "c06Model_NewIndexWriter")
	c06Redirect(repo+"indexes.OpenWithReader_PubkeyToOffsetAndSize", "c06Model_OpenIndexReader")
	c06Redirect("(*"+repo+"indexes.PubkeyToOffsetAndSize_Reader).Close", "c06Model_IndexReaderClose")
	// solana-go cannot be a source root (its package initialisation decodes base58 constants)
	c06Redirect("(github.com/gagliardetto/solana-go.PublicKeySlice).Sort", "c06Model_PKSort")
	c06Redirect("(github.com/gagliardetto/solana-go.PublicKeySlice).Dedupe", "c06Model_PKDedupe")
	c06Redirect("(github.com/gagliardetto/solana-go.PublicKey).Bytes", "c06Model_PKBytes")

	// verifC06Timer(exiting *atomic.Bool, ch chan T) <-chan time.Time replaces the
	// `time.After(1 * time.Second)` of fullBufferWriter. The loop around it is
	//     for { if exiting && len(ch)==0 { ...; return }; select { case b := <-ch: ...; case <-timer: } }
	// A timeout taken while !(exiting && len(ch)==0) returns to the same select without any
	// effect (a stutter step), and a timer that fired earlier is indistinguishable from one that
	// fires once the condition holds. So the timer is enabled exactly when exiting is set and the
	// channel is empty; every other firing is removed. (time.After ready-or-not would make the
	// schedule space infinite.)
	verifIntrinsics["verifC06Timer"] = func(fr *frame, args []value) value {
		stub("time.After in fullBufferWriter (model: fires once exiting is set and the batch channel is empty; earlier firings are stutter steps)")
		exiting := args[0].(*value)
		bch := args[1].(*symchan)
		ch := newChan(1)
		s := sched
		g := &gor{id: len(s.gs), wake: make(chan struct{}, 1), name: "c06timer"}
		// a timer whose select has been left can only send into a channel nobody reads: only
		// the most recently created timer is ever enabled
		c06CurTimer = g
		g.pend = []interface{}{ch}
		g.blocked = func() bool {
			st := (*exiting).(structure)
			// ... and only once the select is actually waiting on it (a timer that fired before
			// the select was reached leads to the same continuation)
			return c06CurTimer == g && truthy(st[len(st)-1]) && bch.length() == 0 && hasLive(ch.recvq)
		}
		g.why = "timer (waits for exiting && empty channel)"
		s.gs = append(s.gs, g)
		s.startGor(g, func() {
			ch.trySend(structure{uint64(0), int64(0), (*value)(nil)})
		})
		return ch
	}

	// verifC06RunOthers(): the calling goroutine waits until every other goroutine is blocked
	// (used to let the freshly started flusher run its prologue up to its first select before
	// the first Push: a partial-order reduction applied by the harness in the quick tier only).
	verifIntrinsics["verifC06RunOthers"] = func(fr *frame, args []value) value {
		stub("verifC06RunOthers (harness-imposed schedule prefix: other goroutines run until they block)")
		g := curG(fr)
		s := sched
		s.block(g, "verifC06RunOthers", func() bool {
			for _, o := range s.gs {
				if o == g || o.done {
					continue
				}
				if o.blocked == nil || o.blocked() {
					return false
				}
			}
			return true
		})
		return nil
	}

	// verifC06MkDir(path): directories for the file model (memfs knows files only). The first call
	// wraps os.Stat (a registered directory is reported with IsDir() == true) and os.MkdirAll
	// (registers the directory); everything else is left to memfs. Per-path state.
	verifIntrinsics["verifC06MkDir"] = func(fr *frame, args []value) value {
		stub("verifC06MkDir (directories of the file model: os.MkdirAll registers, os.Stat reports IsDir)")
		c06InstallDirs(fr.i)
		c06DirSet()[args[0].(string)] = true
		return nil
	}

	// verifC06QuietMutex(mu *sync.Mutex): Lock/Unlock of this mutex are not scheduling points.
	// Sound for a mutex that cannot influence another goroutine: one that is only ever used by
	// a single goroutine, or one that is only acquired while another, scheduled, mutex is held
	// (every critical section of the inner mutex is then already atomic). The model aborts the
	// path as unsupported if such a mutex is ever found locked by another goroutine.
	verifIntrinsics["verifC06QuietMutex"] = func(fr *frame, args []value) value {
		stub("verifC06QuietMutex (goroutine-local / nested mutex: Lock and Unlock are not scheduling points)")
		if c06QuietOwner != sched {
			c06QuietOwner = sched
			c06Quiet = map[*value]bool{}
		}
		c06Quiet[args[0].(*value)] = true
		if !c06QuietInstalled {
			c06QuietInstalled = true
			origLock, origUnlock := externals["(*sync.Mutex).Lock"], externals["(*sync.Mutex).Unlock"]
			externals["(*sync.Mutex).Lock"] = func(fr *frame, args []value) value {
				p := args[0].(*value)
				if c06QuietOwner == sched && c06Quiet[p] {
					m := syncSt.mutex(p)
					if m.locked {
						panic(pathAbort{"unsupported", "verifC06QuietMutex: a mutex declared goroutine-local/nested is contended"})
					}
					g := curG(fr)
					m.locked = true
					m.owner = g.id
					race.acquire(g, m)
					return nil
				}
				return origLock(fr, args)
			}
			externals["(*sync.Mutex).Unlock"] = func(fr *frame, args []value) value {
				p := args[0].(*value)
				if c06QuietOwner == sched && c06Quiet[p] {
					m := syncSt.mutex(p)
					if !m.locked {
						panic(targetPanicMsg("fatal error: sync: unlock of unlocked mutex"))
					}
					race.release(curG(fr), m)
					m.locked = false
					return nil
				}
				return origUnlock(fr, args)
			}
		}
		return nil
	}
}

var (
	c06CurTimer       *gor
	c06Quiet          map[*value]bool
	c06QuietOwner     *scheduler
	c06QuietInstalled bool
)

var (
	c06Dirs          map[string]bool
	c06DirsOwner     *scheduler
	c06DirsInstalled bool
	c06DirInfoT      *types.Named
)

func c06DirSet() map[string]bool {
	if c06DirsOwner != sched {
		c06DirsOwner = sched
		c06Dirs = map[string]bool{}
	}
	return c06Dirs
}

func c06InstallDirs(i *interpreter) {
	if c06DirsInstalled {
		return
	}
	c06DirsInstalled = true
	obj := types.NewTypeName(token.NoPos, rtPkg, "dirInfo", nil)
	st := types.NewStruct([]*types.Var{types.NewField(token.NoPos, rtPkg, "name", types.Typ[types.String], false)}, nil)
	c06DirInfoT = types.NewNamed(obj, st, nil)
	add := func(name string, res types.Type, impl externalFn) {
		recv := types.NewVar(token.NoPos, rtPkg, "di", types.NewPointer(c06DirInfoT))
		sig := types.NewSignatureType(recv, nil, nil, nil, types.NewTuple(types.NewVar(token.NoPos, rtPkg, "", res)), false)
		c06DirInfoT.AddMethod(types.NewFunc(token.NoPos, rtPkg, name, sig))
		engineFns["dirInfo."+name] = i.prog.NewFunction(name, sig, "engine")
		externals["(*symgo/rt.dirInfo)."+name] = impl
	}
	add("Size", types.Typ[types.Int64], func(fr *frame, args []value) value { return int64(4096) })
	add("Name", types.Typ[types.String], func(fr *frame, args []value) value { return (*args[0].(*value)).(structure)[0] })
	add("IsDir", types.Typ[types.Bool], func(fr *frame, args []value) value { return true })
	origStat, origMkdirAll := externals["os.Stat"], externals["os.MkdirAll"]
	externals["os.Stat"] = func(fr *frame, args []value) value {
		if name := args[0].(string); c06DirsOwner == sched && c06Dirs[name] {
			cell := value(structure{name})
			return tuple{iface{t: types.NewPointer(c06DirInfoT), v: &cell}, iface{}}
		}
		return origStat(fr, args)
	}
	externals["os.MkdirAll"] = func(fr *frame, args []value) value {
		if c06DirsOwner == sched {
			c06Dirs[args[0].(string)] = true
		}
		return origMkdirAll(fr, args)
	}
}
