// Copyright 2013 The Go Authors. All rights reserved.
// Use of this source code is governed by a BSD-style
// license that can be found in the LICENSE file.
//
// Forked from golang.org/x/tools@v0.29.0/go/ssa/interp and extended with symbolic scalars.

package symgo

// Values
//
// All interpreter values are "boxed" in the empty interface, value.
// The range of possible dynamic types within value are:
//
// - bool
// - numbers (all built-in int/float/complex types are distinguished)
// - sym --- a symbolic bool / integer (SMT term) of a given basic kind
// - string
// - *omap --- maps (insertion-ordered, deterministic)
// - *symchan --- channels (engine-scheduled)
// - []value --- slices
// - iface --- interfaces.
// - structure --- structs.  Fields are ordered and accessed by numeric indices.
// - array --- arrays.
// - *value --- pointers.  Careful: *value is a distinct type from *array etc.
// - *ssa.Function \
//   *ssa.Builtin   } --- functions.  A nil 'func' is always of type *ssa.Function.
//   *closure      /
// - tuple --- as returned by Return, Next, "value,ok" modes, etc.
// - iter --- iterators from 'range' over map or string.
// - bad --- a poison pill for locals that have gone out of scope.
// - **deferred -- the address of a frame's defer stack for a Defer._Stack.

import (
	"bytes"
	"fmt"
	"go/types"
	"io"
	"strings"
	"unsafe"

	"golang.org/x/tools/go/ssa"
	"golang.org/x/tools/go/types/typeutil"
)

type value interface{}

type tuple []value

type array []value

type iface struct {
	t types.Type // never an "untyped" type
	v value
}

type structure []value

// sym is a symbolic scalar.
type sym struct {
	t *Term
	k types.BasicKind // Bool, Int.., Uint.., Uintptr
}

// For map, array, *array, slice, string or channel.
type iter interface {
	// next returns a Tuple (key, value, ok).
	next() tuple
}

type closure struct {
	Fn  *ssa.Function
	Env []value
}

type bad struct{}

// opaque is an engine-level token standing for a value of a type we do not model (used only
// during package initialisation of source roots).
type opaque struct{ what string }

// kind helpers ---------------------------------------------------------------

func kindWidth(k types.BasicKind) (w uint8, signed bool) {
	switch k {
	case types.Bool:
		return 0, false
	case types.Int8:
		return 8, true
	case types.Int16:
		return 16, true
	case types.Int32:
		return 32, true
	case types.Int64, types.Int:
		return 64, true
	case types.Uint8:
		return 8, false
	case types.Uint16:
		return 16, false
	case types.Uint32:
		return 32, false
	case types.Uint64, types.Uint, types.Uintptr:
		return 64, false
	}
	panic(fmt.Sprintf("kindWidth: not an integer/bool kind %v", k))
}

func isIntKind(k types.BasicKind) bool {
	switch k {
	case types.Int8, types.Int16, types.Int32, types.Int64, types.Int,
		types.Uint8, types.Uint16, types.Uint32, types.Uint64, types.Uint, types.Uintptr:
		return true
	}
	return false
}

// scalarTerm returns the term and kind of a concrete or symbolic bool/integer.
func scalarTerm(v value) (*Term, types.BasicKind, bool) {
	switch x := v.(type) {
	case sym:
		return x.t, x.k, true
	case bool:
		return mkBool(x), types.Bool, true
	case int:
		return mkConst(64, uint64(x)), types.Int, true
	case int8:
		return mkConst(8, uint64(x)), types.Int8, true
	case int16:
		return mkConst(16, uint64(x)), types.Int16, true
	case int32:
		return mkConst(32, uint64(x)), types.Int32, true
	case int64:
		return mkConst(64, uint64(x)), types.Int64, true
	case uint:
		return mkConst(64, uint64(x)), types.Uint, true
	case uint8:
		return mkConst(8, uint64(x)), types.Uint8, true
	case uint16:
		return mkConst(16, uint64(x)), types.Uint16, true
	case uint32:
		return mkConst(32, uint64(x)), types.Uint32, true
	case uint64:
		return mkConst(64, x), types.Uint64, true
	case uintptr:
		return mkConst(64, uint64(x)), types.Uintptr, true
	}
	return nil, 0, false
}

// concreteOfKind boxes a concrete value v as Go kind k.
func concreteOfKind(k types.BasicKind, v uint64) value {
	switch k {
	case types.Bool:
		return v != 0
	case types.Int:
		return int(int64(v))
	case types.Int8:
		return int8(v)
	case types.Int16:
		return int16(v)
	case types.Int32:
		return int32(v)
	case types.Int64:
		return int64(v)
	case types.Uint:
		return uint(v)
	case types.Uint8:
		return uint8(v)
	case types.Uint16:
		return uint16(v)
	case types.Uint32:
		return uint32(v)
	case types.Uint64:
		return v
	case types.Uintptr:
		return uintptr(v)
	}
	panic(fmt.Sprintf("concreteOfKind: %v", k))
}

// mkVal turns a term into a value of kind k, concrete when the term is constant.
func mkVal(t *Term, k types.BasicKind) value {
	if t.IsConst() {
		return concreteOfKind(k, t.ConstVal())
	}
	return sym{t, k}
}

// truth returns the concrete truth of a bool value, branching if it is symbolic.
func truth(v value) bool {
	switch x := v.(type) {
	case bool:
		return x
	case sym:
		return EX.Branch(x.t)
	}
	panic(fmt.Sprintf("truth: not a bool: %T", v))
}

// concretize returns a concrete Go value for a possibly symbolic scalar.
func concretize(v value, what string) value {
	if s, ok := v.(sym); ok {
		return concreteOfKind(s.k, EX.Concretize(s.t, what))
	}
	return v
}

// hasSym reports whether v contains a symbolic scalar (shallow through aggregates, not pointers).
func hasSym(v value) bool {
	switch x := v.(type) {
	case sym:
		return true
	case structure:
		for _, e := range x {
			if hasSym(e) {
				return true
			}
		}
	case array:
		for _, e := range x {
			if hasSym(e) {
				return true
			}
		}
	case iface:
		return hasSym(x.v)
	}
	return false
}

// Hash functions and equivalence relation:

// hashString computes the FNV hash of s.
func hashString(s string) int {
	var h uint32
	for i := 0; i < len(s); i++ {
		h ^= uint32(s[i])
		h *= 16777619
	}
	return int(h)
}

var hasher = typeutil.MakeHasher()

// hashType returns a hash for t such that
// types.Identical(x, y) => hashType(x) == hashType(y).
func hashType(t types.Type) int {
	return int(hasher.Hash(t))
}

// nil-tolerant variant of types.Identical.
func sameType(x, y types.Type) bool {
	if x == nil {
		return y == nil
	}
	return y != nil && types.Identical(x, y)
}

// equalsV returns x == y as a bool or a symbolic bool.
func equalsV(t types.Type, x, y value) value {
	if xs, ok := x.(sym); ok {
		yt, _, ok2 := scalarTerm(y)
		if !ok2 {
			panic(fmt.Sprintf("equalsV: sym vs %T", y))
		}
		return mkVal(tEq(xs.t, yt), types.Bool)
	}
	if ys, ok := y.(sym); ok {
		xt, _, ok2 := scalarTerm(x)
		if !ok2 {
			panic(fmt.Sprintf("equalsV: %T vs sym", x))
		}
		return mkVal(tEq(xt, ys.t), types.Bool)
	}
	switch x := x.(type) {
	case bool:
		return x == y.(bool)
	case int:
		return x == y.(int)
	case int8:
		return x == y.(int8)
	case int16:
		return x == y.(int16)
	case int32:
		return x == y.(int32)
	case int64:
		return x == y.(int64)
	case uint:
		return x == y.(uint)
	case uint8:
		return x == y.(uint8)
	case uint16:
		return x == y.(uint16)
	case uint32:
		return x == y.(uint32)
	case uint64:
		return x == y.(uint64)
	case uintptr:
		return x == y.(uintptr)
	case float32:
		return x == y.(float32)
	case float64:
		return x == y.(float64)
	case complex64:
		return x == y.(complex64)
	case complex128:
		return x == y.(complex128)
	case string:
		return x == y.(string)
	case *value:
		return x == y.(*value)
	case *symchan:
		return x == y.(*symchan)
	case unsafe.Pointer:
		return x == y.(unsafe.Pointer)
	case structure:
		ys := y.(structure)
		tStruct := t.Underlying().(*types.Struct)
		acc := value(true)
		for i, n := 0, tStruct.NumFields(); i < n; i++ {
			if f := tStruct.Field(i); f.Name() != "_" {
				acc = andV(acc, equalsV(f.Type(), x[i], ys[i]))
				if acc == false {
					return false
				}
			}
		}
		return acc
	case array:
		ya := y.(array)
		tElt := t.Underlying().(*types.Array).Elem()
		acc := value(true)
		for i := range x {
			acc = andV(acc, equalsV(tElt, x[i], ya[i]))
			if acc == false {
				return false
			}
		}
		return acc
	case iface:
		yi := y.(iface)
		if !sameType(x.t, yi.t) {
			return false
		}
		if x.t == nil {
			return true
		}
		return equalsV(x.t, x.v, yi.v)
	case opaque:
		yo, ok := y.(opaque)
		return ok && yo == x
	}

	// Since map, func and slice don't support comparison, this
	// case is only reachable if one of x or y is literally nil
	// (handled in eqnil) or via interface{} values.
	panic(targetPanicMsg(fmt.Sprintf("runtime error: comparing uncomparable type %s", t)))
}

func andV(a, b value) value {
	if ab, ok := a.(bool); ok {
		if !ab {
			return false
		}
		return b
	}
	if bb, ok := b.(bool); ok {
		if !bb {
			return false
		}
		return a
	}
	return mkVal(tAnd(a.(sym).t, b.(sym).t), types.Bool)
}

func orV(a, b value) value {
	if ab, ok := a.(bool); ok {
		if ab {
			return true
		}
		return b
	}
	if bb, ok := b.(bool); ok {
		if bb {
			return true
		}
		return a
	}
	return mkVal(tOr(a.(sym).t, b.(sym).t), types.Bool)
}

func notV(a value) value {
	if ab, ok := a.(bool); ok {
		return !ab
	}
	return mkVal(tNot(a.(sym).t), types.Bool)
}

// equals returns true iff x and y are equal according to Go's
// linguistic equivalence relation for type t (branching when symbolic).
func equals(t types.Type, x, y value) bool {
	return truth(equalsV(t, x, y))
}

// Returns an integer hash of x such that equals(x, y) => hash(x) == hash(y) for concrete values.
// ok is false when x contains a symbolic scalar.
func hashV(t types.Type, x value) (h int, ok bool) {
	switch x := x.(type) {
	case sym:
		return 0, false
	case bool:
		if x {
			return 1, true
		}
		return 0, true
	case int:
		return x, true
	case int8:
		return int(x), true
	case int16:
		return int(x), true
	case int32:
		return int(x), true
	case int64:
		return int(x), true
	case uint:
		return int(x), true
	case uint8:
		return int(x), true
	case uint16:
		return int(x), true
	case uint32:
		return int(x), true
	case uint64:
		return int(x), true
	case uintptr:
		return int(x), true
	case float32:
		return int(x), true
	case float64:
		return int(x), true
	case complex64:
		return int(real(x)), true
	case complex128:
		return int(real(x)), true
	case string:
		return hashString(x), true
	case *value:
		return int(uintptr(unsafe.Pointer(x))), true
	case *symchan:
		return int(uintptr(unsafe.Pointer(x))), true
	case unsafe.Pointer:
		return int(uintptr(x)), true
	case structure:
		tStruct := t.Underlying().(*types.Struct)
		h := 0
		for i, n := 0, tStruct.NumFields(); i < n; i++ {
			if f := tStruct.Field(i); f.Name() != "_" {
				hi, ok := hashV(f.Type(), x[i])
				if !ok {
					return 0, false
				}
				h = h*31 + hi
			}
		}
		return h, true
	case array:
		tElt := t.Underlying().(*types.Array).Elem()
		h := 0
		for _, xi := range x {
			hi, ok := hashV(tElt, xi)
			if !ok {
				return 0, false
			}
			h = h*31 + hi
		}
		return h, true
	case iface:
		if x.t == nil {
			return 0, true
		}
		hi, ok := hashV(x.t, x.v)
		return hashType(x.t)*8581 + hi, ok
	case opaque:
		return hashString(x.what), true
	}
	panic(targetPanicMsg(fmt.Sprintf("runtime error: hash of unhashable type %v", t)))
}

// load returns the value of type T in *addr.
func load(T types.Type, addr *value) value {
	if addr == nil {
		panic(targetPanicMsg("runtime error: invalid memory address or nil pointer dereference"))
	}
	if u, ok := (*addr).(uninitGlobal); ok {
		panic(pathAbort{"unsupported", "read of " + u.name + ": a variable of a package that is not a source root is never initialised (add its package to the obligation's roots)"})
	}
	switch T := T.Underlying().(type) {
	case *types.Struct:
		v, ok := (*addr).(structure)
		if !ok {
			return *addr // opaque
		}
		a := make(structure, len(v))
		for i := range a {
			a[i] = load(T.Field(i).Type(), &v[i])
		}
		return a
	case *types.Array:
		v, ok := (*addr).(array)
		if !ok {
			return *addr // opaque
		}
		a := make(array, len(v))
		for i := range a {
			a[i] = load(T.Elem(), &v[i])
		}
		return a
	default:
		return *addr
	}
}

// store stores value v of type T into *addr.
func store(T types.Type, addr *value, v value) {
	if addr == nil {
		panic(targetPanicMsg("runtime error: invalid memory address or nil pointer dereference"))
	}
	switch T := T.Underlying().(type) {
	case *types.Struct:
		lhs, ok1 := (*addr).(structure)
		rhs, ok2 := v.(structure)
		if !ok1 || !ok2 {
			*addr = v
			return
		}
		for i := range lhs {
			store(T.Field(i).Type(), &lhs[i], rhs[i])
		}
	case *types.Array:
		lhs, ok1 := (*addr).(array)
		rhs, ok2 := v.(array)
		if !ok1 || !ok2 {
			*addr = v
			return
		}
		for i := range lhs {
			store(T.Elem(), &lhs[i], rhs[i])
		}
	default:
		*addr = v
	}
}

// Prints in the style of built-in println.
func writeValue(buf *bytes.Buffer, v value) {
	switch v := v.(type) {
	case nil, bool, int, int8, int16, int32, int64, uint, uint8, uint16, uint32, uint64, uintptr, float32, float64, complex64, complex128, string:
		fmt.Fprintf(buf, "%v", v)

	case sym:
		fmt.Fprintf(buf, "<sym %s>", v.t.String())

	case *omap:
		buf.WriteString("map[")
		sep := ""
		if v != nil {
			for i, k := range v.keys {
				if v.dead[i] {
					continue
				}
				buf.WriteString(sep)
				sep = " "
				writeValue(buf, k)
				buf.WriteString(":")
				writeValue(buf, v.vals[i])
			}
		}
		buf.WriteString("]")

	case *symchan:
		fmt.Fprintf(buf, "%p", v) // (an address)

	case *value:
		if v == nil {
			buf.WriteString("<nil>")
		} else {
			fmt.Fprintf(buf, "%p", v)
		}

	case iface:
		fmt.Fprintf(buf, "(%s, ", v.t)
		writeValue(buf, v.v)
		buf.WriteString(")")

	case structure:
		buf.WriteString("{")
		for i, e := range v {
			if i > 0 {
				buf.WriteString(" ")
			}
			writeValue(buf, e)
		}
		buf.WriteString("}")

	case array:
		buf.WriteString("[")
		for i, e := range v {
			if i > 0 {
				buf.WriteString(" ")
			}
			writeValue(buf, e)
		}
		buf.WriteString("]")

	case []value:
		buf.WriteString("[")
		for i, e := range v {
			if i > 0 {
				buf.WriteString(" ")
			}
			writeValue(buf, e)
		}
		buf.WriteString("]")

	case *ssa.Function, *ssa.Builtin, *closure:
		fmt.Fprintf(buf, "%p", v) // (an address)

	case tuple:
		// Unreachable in well-formed Go programs
		buf.WriteString("(")
		for i, e := range v {
			if i > 0 {
				buf.WriteString(", ")
			}
			writeValue(buf, e)
		}
		buf.WriteString(")")

	default:
		fmt.Fprintf(buf, "<%T>", v)
	}
}

// Implements printing of Go values in the style of built-in println.
func toString(v value) string {
	var b bytes.Buffer
	writeValue(&b, v)
	return b.String()
}

// ------------------------------------------------------------------------
// Iterators

type stringIter struct {
	*strings.Reader
	i int
}

func (it *stringIter) next() tuple {
	okv := make(tuple, 3)
	ch, n, err := it.ReadRune()
	ok := err != io.EOF
	okv[0] = ok
	if ok {
		okv[1] = it.i
		okv[2] = ch
	}
	it.i += n
	return okv
}

// ------------------------------------------------------------------------
// Ordered maps. Iteration order is insertion order (or a decision, see rangeIter), so that
// re-execution is deterministic. Concrete hashable keys are indexed; a key containing a
// symbolic scalar forces a linear scan with symbolic equality (which may fork the path).

type omap struct {
	keyType types.Type
	keys    []value
	vals    []value
	dead    []bool
	index   map[int][]int // hash -> entry indices (concrete keys only)
	symIdx  []int         // entries whose key contains a symbolic scalar
	n       int
}

func makeMap(kt types.Type, reserve int64) value {
	return &omap{keyType: kt, index: map[int][]int{}}
}

func (m *omap) len() int {
	if m == nil {
		return 0
	}
	return m.n
}

// find returns the entry index of key k, or -1.
func (m *omap) find(k value) int {
	if m == nil {
		return -1
	}
	h, ok := hashV(m.keyType, k)
	if ok {
		for _, i := range m.index[h] {
			if !m.dead[i] && equals(m.keyType, m.keys[i], k) {
				return i
			}
		}
		for _, i := range m.symIdx {
			if !m.dead[i] && equals(m.keyType, m.keys[i], k) {
				return i
			}
		}
		return -1
	}
	for i := range m.keys {
		if !m.dead[i] && equals(m.keyType, m.keys[i], k) {
			return i
		}
	}
	return -1
}

func (m *omap) lookup(k value) (value, bool) {
	if i := m.find(k); i >= 0 {
		return m.vals[i], true
	}
	return nil, false
}

func (m *omap) insert(k, v value) {
	if m == nil {
		panic(targetPanicMsg("assignment to entry in nil map"))
	}
	if i := m.find(k); i >= 0 {
		m.vals[i] = v
		return
	}
	i := len(m.keys)
	m.keys = append(m.keys, k)
	m.vals = append(m.vals, v)
	m.dead = append(m.dead, false)
	if h, ok := hashV(m.keyType, k); ok {
		m.index[h] = append(m.index[h], i)
	} else {
		m.symIdx = append(m.symIdx, i)
	}
	m.n++
}

func (m *omap) delete(k value) {
	if m == nil {
		return
	}
	if i := m.find(k); i >= 0 {
		m.dead[i] = true
		m.vals[i] = nil
		m.n--
	}
}

type omapIter struct {
	m     *omap
	order []int
	pos   int
}

func (it *omapIter) next() tuple {
	for it.pos < len(it.order) {
		i := it.order[it.pos]
		it.pos++
		if it.m.dead[i] {
			continue
		}
		return tuple{true, it.m.keys[i], it.m.vals[i]}
	}
	return tuple{false, nil, nil}
}
