package symgo

// Models added for property C08 (no request can crash the server).

import (
	"go/token"
)

type c08B58Result struct {
	bytes  []value
	errMsg string
	isErr  bool
}

var c08B58Memo = map[string]c08B58Result{}

const c08B58Decode = "github.com/mr-tron/base58.Decode"

// c08B58DecodeMemo is NOT a model: it runs the real base58.Decode (which must be a source root)
// the first time a given concrete string is decoded and replays the recorded result afterwards
// (the function is pure). Package initialisation of solana-go decodes ~40 well-known program ids
// before every path; without the memo this dominates the run time.
func c08B58DecodeMemo(fr *frame, args []value) value {
	s := args[0].(string)
	if r, ok := c08B58Memo[s]; ok {
		if r.isErr {
			return tuple{[]value(nil), newEngineError(r.errMsg, nil)}
		}
		return tuple{append([]value{}, r.bytes...), iface{}}
	}
	fn := fr.fn
	if fn == nil || fn.Blocks == nil {
		// base58 is not a source root of this obligation: behave exactly as without the memo
		if fr.i.initializing && fn != nil {
			return opaqueResult(fn)
		}
		panic(pathAbort{"unsupported", "no model for external function " + c08B58Decode + " (list github.com/mr-tron/base58 in roots)"})
	}
	delete(externals, c08B58Decode)
	res := func() value {
		defer func() { externals[c08B58Decode] = c08B58DecodeMemo }()
		return callSSA(fr.i, fr.caller, token.NoPos, fn, args, nil)
	}()
	t := res.(tuple)
	r := c08B58Result{}
	if e := t[1].(iface); e.t != nil {
		r.isErr = true
		r.errMsg = errorMessage(fr, e)
	} else {
		b, _ := t[0].([]value)
		for _, x := range b {
			if _, ok := x.(uint8); !ok {
				return res // not fully concrete: do not memoise
			}
		}
		r.bytes = append([]value{}, b...)
	}
	c08B58Memo[s] = r
	return res
}

func init() {
	// txstatus.IsEnabled() is a build-time constant (false without the FFI build tag, true with
	// it); both builds are explored.
	externals["github.com/rpcpool/yellowstone-faithful/txstatus.IsEnabled"] = func(fr *frame, args []value) value {
		stub("txstatus.IsEnabled (model: either build, nondeterministic)")
		return EX.Choose(2, "txstatus.IsEnabled") == 1
	}
	externals[c08B58Decode] = c08B58DecodeMemo
}
