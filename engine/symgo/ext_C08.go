package symgo

// Models added for property C08 (no request can crash the server).

func init() {
	// txstatus.IsEnabled() is a build-time constant (false without the FFI build tag, true with
	// it); both builds are explored.
	externals["github.com/rpcpool/yellowstone-faithful/txstatus.IsEnabled"] = func(fr *frame, args []value) value {
		stub("txstatus.IsEnabled (model: either build, nondeterministic)")
		return EX.Choose(2, "txstatus.IsEnabled") == 1
	}
}
