package symgo

// Models added for property C08 (no request can crash the server).

import (
	"fmt"
	"go/token"
	"go/types"
	"strconv"
	"strings"
	"unicode/utf8"

	"golang.org/x/tools/go/ssa"
)

// noopNilIfaceMethod: interface methods of the no-op'd libraries (noopPrefixes: prometheus, klog,
// metrics) invoked on a nil interface value — which under symgo is what their no-op'd constructors
// (e.g. CounterVec.WithLabelValues) return — are no-ops too. Any other method call on a nil
// interface is a nil-pointer panic of the program under test.
var c08NoopIfaceMethods = map[string]*ssa.Function{}

func noopNilIfaceMethod(i *interpreter, m *types.Func) *ssa.Function {
	sig, ok := m.Type().(*types.Signature)
	if !ok || sig.Recv() == nil || m.Pkg() == nil {
		return nil
	}
	name := "(" + types.TypeString(sig.Recv().Type(), nil) + ")." + m.Name()
	if f, ok := c08NoopIfaceMethods[name]; ok {
		return f
	}
	var f *ssa.Function
	for _, p := range noopPrefixes {
		if strings.HasPrefix(name, p) {
			f = i.prog.NewFunction(m.Name(), sig, "symgo: no-op library method on a nil interface")
			break
		}
	}
	c08NoopIfaceMethods[name] = f
	return f
}

type c08B58Result struct {
	bytes  []value
	errMsg string
	isErr  bool
}

var c08B58Memo = map[string]c08B58Result{}

const c08B58Decode = "github.com/mr-tron/base58.Decode"

// c08B58DecodeMemo is NOT a model: it runs the real base58.Decode (which must be a source root)
// the first time a given concrete string is decoded and replays the recorded result afterwards
// (the function is pure). Package initialisation of solana-go decodes ~40 well-known program ids
// before every path; without the memo this dominates the run time.
func c08B58DecodeMemo(fr *frame, args []value) value {
	s := args[0].(string)
	if r, ok := c08B58Memo[s]; ok {
		if r.isErr {
			return tuple{[]value(nil), newEngineError(r.errMsg, nil)}
		}
		return tuple{append([]value{}, r.bytes...), iface{}}
	}
	fn := fr.fn
	if fn == nil || fn.Blocks == nil {
		// base58 is not a source root of this obligation: behave exactly as without the memo
		if fr.i.initializing && fn != nil {
			return opaqueResult(fn)
		}
		panic(pathAbort{"unsupported", "no model for external function " + c08B58Decode + " (list github.com/mr-tron/base58 in roots)"})
	}
	skipExternalOnce = fn // run the real body (the externals lookup is cached per function)
	res := callSSA(fr.i, fr.caller, token.NoPos, fn, args, nil)
	t := res.(tuple)
	r := c08B58Result{}
	if e := t[1].(iface); e.t != nil {
		r.isErr = true
		r.errMsg = errorMessage(fr, e)
	} else {
		b, _ := t[0].([]value)
		for _, x := range b {
			if _, ok := x.(uint8); !ok {
				return res // not fully concrete: do not memoise
			}
		}
		r.bytes = append([]value{}, b...)
	}
	c08B58Memo[s] = r
	return res
}

// strings.Builder: the real String() uses unsafe.String; the model keeps the bytes in the real
// `buf` field (field 1 of struct{addr *Builder; buf []byte}) and omits the copy check.
func c08BuilderBuf(args []value) structure {
	return (*args[0].(*value)).(structure)
}

func c08BuilderAppend(st structure, s string) {
	buf, _ := st[1].([]value)
	for i := 0; i < len(s); i++ {
		buf = append(buf, uint8(s[i]))
	}
	st[1] = buf
}

func c08BuilderString(st structure) string {
	buf, _ := st[1].([]value)
	b := make([]byte, len(buf))
	for i, x := range buf {
		b[i] = concretize(x, "strings.Builder byte").(uint8)
	}
	return string(b)
}

func init() {
	for k, v := range map[string]externalFn{
		"(*strings.Builder).WriteString": func(fr *frame, args []value) value {
			s := args[1].(string)
			c08BuilderAppend(c08BuilderBuf(args), s)
			return tuple{len(s), iface{}}
		},
		"(*strings.Builder).WriteByte": func(fr *frame, args []value) value {
			st := c08BuilderBuf(args)
			buf, _ := st[1].([]value)
			st[1] = append(buf, args[1])
			return iface{}
		},
		"(*strings.Builder).WriteRune": func(fr *frame, args []value) value {
			s := string(rune(asInt64(args[1])))
			c08BuilderAppend(c08BuilderBuf(args), s)
			return tuple{len(s), iface{}}
		},
		"(*strings.Builder).Write": func(fr *frame, args []value) value {
			st := c08BuilderBuf(args)
			buf, _ := st[1].([]value)
			p, _ := args[1].([]value)
			st[1] = append(buf, p...)
			return tuple{len(p), iface{}}
		},
		"(*strings.Builder).String": func(fr *frame, args []value) value { return c08BuilderString(c08BuilderBuf(args)) },
		"(*strings.Builder).Len": func(fr *frame, args []value) value {
			buf, _ := c08BuilderBuf(args)[1].([]value)
			return len(buf)
		},
		"(*strings.Builder).Grow":  func(fr *frame, args []value) value { return nil },
		"(*strings.Builder).Reset": func(fr *frame, args []value) value { c08BuilderBuf(args)[1] = []value(nil); return nil },
		// strings.Map(mapping, s): the real algorithm (drop negative results), calling the real mapping
		"strings.Map": func(fr *frame, args []value) value {
			s := args[1].(string)
			out := make([]byte, 0, len(s))
			for _, r := range s {
				m := rune(asInt64(concretize(call(fr.i, fr, token.NoPos, args[0], []value{r}), "strings.Map result")))
				if m >= 0 {
					out = utf8.AppendRune(out, m)
				}
			}
			return string(out)
		},
	} {
		if externals[k] == nil {
			externals[k] = v
		}
	}
	// strconv.ParseUint on a concrete string: the real function (run natively by the engine)
	if externals["strconv.ParseUint"] == nil {
		externals["strconv.ParseUint"] = func(fr *frame, args []value) value {
			v, err := strconv.ParseUint(args[0].(string), int(asInt64(args[1])), int(asInt64(args[2])))
			if err != nil {
				return tuple{v, newEngineError(err.Error(), nil)}
			}
			return tuple{v, iface{}}
		}
	}
	// txstatus.IsEnabled() is a build-time constant (false without the FFI build tag, true with
	// it); both builds are explored.
	externals["github.com/rpcpool/yellowstone-faithful/txstatus.IsEnabled"] = func(fr *frame, args []value) value {
		stub("txstatus.IsEnabled (model: either build, nondeterministic)")
		return EX.Choose(2, "txstatus.IsEnabled") == 1
	}
	externals[c08B58Decode] = c08B58DecodeMemo
}

// ---------------------------------------------------------------------------
// protobuf getters of the generated old-faithful-grpc messages (the package cannot be a source
// root: it instantiates generics of google.golang.org/grpc). A generated getter is
//
//	func (x *T) GetF() FT { if x != nil { return x.F }; return <zero> }
//
// and for a oneof member
//
//	func (x *T) GetF() *M { if w, ok := x.GetOneof().(*T_F); ok { return w.F }; return nil }
//
// c08PbGetter implements exactly that by field name.
func c08PbGetter(field string) externalFn {
	return func(fr *frame, args []value) value {
		stub("protobuf getter (model: generated nil-safe field read)")
		res := fr.fn.Signature.Results().At(0).Type()
		recv, _ := args[0].(*value)
		if recv == nil {
			return zero(res)
		}
		pt, _ := fr.fn.Signature.Recv().Type().Underlying().(*types.Pointer)
		st, _ := pt.Elem().Underlying().(*types.Struct)
		val := (*recv).(structure)
		for i := 0; i < st.NumFields(); i++ {
			if st.Field(i).Name() == field {
				// proto3 `optional` scalar: field *T, getter returns T (zero when unset)
				if fp, ok := st.Field(i).Type().Underlying().(*types.Pointer); ok && types.Identical(fp.Elem(), res) {
					p, _ := val[i].(*value)
					if p == nil {
						return zero(res)
					}
					return *p
				}
				return val[i]
			}
		}
		// oneof: an interface-typed field holding *Wrapper{F}
		for i := 0; i < st.NumFields(); i++ {
			if _, ok := st.Field(i).Type().Underlying().(*types.Interface); !ok {
				continue
			}
			w, _ := val[i].(iface)
			if w.t == nil {
				continue
			}
			wpt, ok := w.t.Underlying().(*types.Pointer)
			if !ok {
				continue
			}
			wst, ok := wpt.Elem().Underlying().(*types.Struct)
			if !ok || wst.NumFields() != 1 || wst.Field(0).Name() != field {
				continue
			}
			wp, _ := w.v.(*value)
			if wp == nil {
				return zero(res)
			}
			return (*wp).(structure)[0]
		}
		return zero(res)
	}
}

// grpc status: counterpart of the status.Errorf model of ext_C03.go / status.Code of ext_C19.go
// (an engine error with text "rpc error: code = <Name> desc = <msg>").
type c08Status struct {
	code uint32
	msg  string
}

var c08Statuses = map[*value]c08Status{}

func c08ParseStatus(fr *frame, e iface) (c08Status, bool) {
	msg := errorMessage(fr, e)
	const pfx = "rpc error: code = "
	if strings.HasPrefix(msg, pfx) {
		rest := msg[len(pfx):]
		for i, n := range grpcCodeNames {
			if strings.HasPrefix(rest, n+" desc = ") {
				return c08Status{uint32(i), rest[len(n)+len(" desc = "):]}, true
			}
		}
	}
	return c08Status{2, msg}, false
}

func init() {
	const pb = "github.com/rpcpool/yellowstone-faithful/old-faithful-proto/old-faithful-grpc"
	for _, g := range [][2]string{
		{"GetRequest", "Id"}, {"GetRequest", "Block"}, {"GetRequest", "Transaction"}, {"GetRequest", "Version"}, {"GetRequest", "BlockTime"},
		{"Transaction", "Transaction"}, {"Transaction", "Meta"}, {"Transaction", "Index"},
		{"StreamTransactionsFilter", "Vote"}, {"StreamTransactionsFilter", "Failed"}, {"StreamTransactionsFilter", "AccountInclude"},
		{"StreamTransactionsFilter", "AccountExclude"}, {"StreamTransactionsFilter", "AccountRequired"}, {"StreamBlocksFilter", "AccountInclude"},
		{"StreamTransactionsRequest", "StartSlot"}, {"StreamTransactionsRequest", "EndSlot"}, {"StreamTransactionsRequest", "Filter"},
		{"StreamBlocksRequest", "StartSlot"}, {"StreamBlocksRequest", "EndSlot"}, {"StreamBlocksRequest", "Filter"},
		{"BlockRequest", "Slot"}, {"BlockTimeRequest", "Slot"}, {"TransactionRequest", "Signature"},
		{"BlockResponse", "Transactions"}, {"BlockResponse", "Slot"}, {"TransactionResponse", "Transaction"}, {"TransactionResponse", "Index"}, {"TransactionResponse", "Slot"},
	} {
		name := "(*" + pb + "." + g[0] + ").Get" + g[1]
		if externals[name] == nil {
			externals[name] = c08PbGetter(g[1])
		}
	}

	// status.FromError(err): nil -> (nil, true); an error made by status.Errorf -> (its status,
	// true); anything else -> (Unknown status carrying err.Error(), false).
	externals["google.golang.org/grpc/status.FromError"] = func(fr *frame, args []value) value {
		stub("grpc/status.FromError (model: parses the text of the status.Errorf model)")
		resT := fr.fn.Signature.Results().At(0).Type() // *status.Status
		e, _ := args[0].(iface)
		if e.t == nil {
			return tuple{zero(resT), true}
		}
		st, ok := c08ParseStatus(fr, e)
		cell := new(value)
		*cell = zero(resT.Underlying().(*types.Pointer).Elem())
		c08Statuses[cell] = st
		return tuple{cell, ok}
	}
	statusMethod := func(name string, f func(c08Status) value) {
		for _, pkg := range []string{"google.golang.org/grpc/internal/status", "google.golang.org/grpc/status"} {
			externals["(*"+pkg+".Status)."+name] = func(fr *frame, args []value) value {
				p, _ := args[0].(*value)
				if p == nil {
					return f(c08Status{0, ""}) // nil *Status: OK, ""
				}
				return f(c08Statuses[p])
			}
		}
	}
	statusMethod("Code", func(s c08Status) value { return s.code })
	statusMethod("Message", func(s c08Status) value { return s.msg })

	// context.WithTimeout(parent, d): the real body arms a runtime timer (time.AfterFunc). The
	// model is the real context.WithCancel(parent): same cancellation behaviour, the deadline
	// itself never fires during the explored request (assumption, stated by the obligations).
	if externals["context.WithTimeout"] == nil {
		externals["context.WithTimeout"] = func(fr *frame, args []value) value {
			stub("context.WithTimeout (model: real context.WithCancel; the deadline does not expire during the request)")
			pkg := fr.i.prog.ImportedPackage("context")
			if pkg == nil || pkg.Func("WithCancel") == nil || pkg.Func("WithCancel").Blocks == nil {
				panic(pathAbort{"unsupported", "context.WithTimeout: package context is not a source root"})
			}
			return call(fr.i, fr, token.NoPos, pkg.Func("WithCancel"), []value{args[0]})
		}
	}
}

// Models for C08.encode.
func init() {
	// zstd (library): the pooled encoder is an opaque handle, EncodeAll is the identity (as
	// tooling.CompressZstd in external.go).
	if externals["(*github.com/mostynb/zstdpool-freelist.EncoderPool).Get"] == nil {
		externals["(*github.com/mostynb/zstdpool-freelist.EncoderPool).Get"] = func(fr *frame, args []value) value {
			stub("zstdpool.EncoderPool.Get (model: opaque encoder handle, never fails)")
			resT := fr.fn.Signature.Results().At(0).Type() // *zstd.Encoder
			cell := new(value)
			*cell = zero(resT.Underlying().(*types.Pointer).Elem())
			return tuple{cell, iface{}}
		}
		externals["(*github.com/mostynb/zstdpool-freelist.EncoderPool).Put"] = func(fr *frame, args []value) value { return nil }
	}
	if externals["(*github.com/klauspost/compress/zstd.Encoder).EncodeAll"] == nil {
		externals["(*github.com/klauspost/compress/zstd.Encoder).EncodeAll"] = func(fr *frame, args []value) value {
			stub("zstd.Encoder.EncodeAll (model: identity)")
			src, _ := args[1].([]value)
			dst, _ := args[2].([]value)
			return append(append([]value{}, dst...), src...)
		}
	}
	// txstatus.Parameters.ParseInstruction: FFI into a Rust library in the ffi build, a stub that
	// fails in the default build. Any outcome: error, a JSON object, JSON that is not an object.
	externals["(github.com/rpcpool/yellowstone-faithful/txstatus.Parameters).ParseInstruction"] = func(fr *frame, args []value) value {
		stub("txstatus.Parameters.ParseInstruction (model: error | JSON object | other JSON)")
		mk := func(s string) []value {
			out := make([]value, len(s))
			for i := 0; i < len(s); i++ {
				out[i] = uint8(s[i])
			}
			return out
		}
		switch EX.Choose(3, "ParseInstruction") {
		case 0:
			return tuple{[]value(nil), newEngineError("verif: instruction not parsable", nil)}
		case 1:
			return tuple{mk(`{"parsed":{},"program":"system"}`), iface{}}
		}
		return tuple{mk(` [1]`), iface{}}
	}
}

// fmt.Sscanf(str, "%f", &f) (asFloat in multiepoch-getBlock.go): the real function, run natively on
// the concrete string; only the single-verb float form is modelled.
func init() {
	if externals["fmt.Sscanf"] == nil {
		externals["fmt.Sscanf"] = func(fr *frame, args []value) value {
			str, ok1 := args[0].(string)
			format, ok2 := args[1].(string)
			rest, _ := args[2].([]value)
			if !ok1 || !ok2 || format != "%f" || len(rest) != 1 {
				panic(pathAbort{"unsupported", "fmt.Sscanf: only Sscanf(s, \"%f\", &float64) is modelled"})
			}
			target, ok := rest[0].(iface).v.(*value)
			if !ok || target == nil {
				panic(pathAbort{"unsupported", "fmt.Sscanf: target is not a *float64"})
			}
			var f float64
			n, err := fmt.Sscanf(str, "%f", &f)
			if n == 1 {
				*target = f
			}
			if err != nil {
				return tuple{n, newEngineError(err.Error(), nil)}
			}
			return tuple{n, iface{}}
		}
	}
}
