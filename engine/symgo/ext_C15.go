package symgo

// Models added for property C15 (block-by-block CAR traversal).
//
// verifC15KnownEnd(id): ends the region of known finding id on the current path. The C15 findings
// "Run never returns" (deadlock) and "Run panics" occur inside one call of the code under test and
// cannot be described by a predicate over the inputs (they depend on the schedule), so the harness
// opens the region right before Run and closes it right after: a violation raised by the oracle
// after Run has returned is reported as a new violation, not attributed to the finding.
// The harness declares the function itself (no-op natively).

import (
	"go/token"
)

func init() {
	verifIntrinsics["verifC15KnownEnd"] = func(fr *frame, args []value) value {
		if id, ok := args[0].(string); ok && EX != nil && EX.known == id {
			EX.known = ""
		}
		return nil
	}
}

// c15Redirect: a callee outside the package under test is replaced by a model function written as
// ordinary Go in the C15 harness (same mechanism as c14Redirect; chains to an earlier registration
// for the same callee, so obligations of other properties that cut the same function are unaffected:
// without a harness function of that name the entry behaves as if it did not exist).
func c15Redirect(ext, harness string) {
	prev := externals[ext]
	var self externalFn
	self = func(fr *frame, args []value) value {
		if h := harnessFunc(fr.i, harness); h != nil {
			stub(ext + " (cut: model function " + harness + " of the harness)")
			return call(fr.i, fr, token.NoPos, h, args)
		}
		if prev != nil {
			return prev(fr, args)
		}
		fn := fr.fn
		if fn.Blocks == nil {
			if fr.i.initializing {
				return opaqueResult(fn)
			}
			panic(pathAbort{"unsupported", "no model for external function " + fn.String()})
		}
		skipExternalOnce = fn // run the real body (the externals lookup is cached per function)
		return callSSA(fr.i, fr.caller, token.NoPos, fn, args, nil)
	}
	externals[ext] = self
}

func init() {
	const repo = "github.com/rpcpool/yellowstone-faithful/"
	c15Redirect(repo+"iplddecoders.DecodeTransaction", "c15Model_DecodeTransaction")
	c15Redirect(repo+"iplddecoders.DecodeBlock", "c15Model_DecodeBlock")
	c15Redirect(repo+"solana-tx-meta-parsers.ParseTransactionStatusMetaContainer", "c15Model_ParseMeta")
	c15Redirect("github.com/gagliardetto/binary.UnmarshalBin", "c15Model_UnmarshalBin")
	// C15.open: the reflection-driven CBOR codec of the CAR header (table over canonical headers)
	c15Redirect("github.com/ipfs/go-ipld-cbor.DecodeInto", "c15Model_cborDecodeInto")
	c15Redirect("github.com/ipld/go-car.WriteHeader", "c15Model_WriteHeader")
}
