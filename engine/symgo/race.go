package symgo

// Happens-before data-race detector (vector clocks) over the modelled synchronisation
// primitives. It checks the assumption under which schedules are explored only at
// synchronisation granularity: conflicting accesses to a heap cell or a map by two goroutines
// must be ordered by happens-before. Enabled per obligation (Explorer.RaceCheck).

import (
	"fmt"
	"go/token"
)

type vclock map[int]int

func (v vclock) copy() vclock {
	n := make(vclock, len(v))
	for k, x := range v {
		n[k] = x
	}
	return n
}

func (v vclock) join(o vclock) {
	for k, x := range o {
		if x > v[k] {
			v[k] = x
		}
	}
}

type access struct {
	gid   int
	clock int
	pos   token.Pos
}

type shadow struct {
	write access
	hasW  bool
	reads map[int]access
}

type raceState struct {
	vc     map[int]vclock           // goroutine id -> clock
	objVC  map[interface{}]vclock   // sync object -> clock released into it
	shadow map[interface{}]*shadow  // location (*value cell or *omap) -> accesses
	on     bool
}

var race *raceState

func newRaceState() *raceState {
	return &raceState{vc: map[int]vclock{0: {0: 1}}, objVC: map[interface{}]vclock{}, shadow: map[interface{}]*shadow{}}
}

func (r *raceState) clockOf(g *gor) vclock {
	c := r.vc[g.id]
	if c == nil {
		c = vclock{g.id: 1}
		r.vc[g.id] = c
	}
	return c
}

// fork: child starts with a copy of the parent's clock.
func (r *raceState) fork(parent, child *gor) {
	pc := r.clockOf(parent)
	cc := pc.copy()
	cc[child.id] = 1
	r.vc[child.id] = cc
	pc[parent.id]++
	r.on = true
}

// release: g publishes its clock into obj.
func (r *raceState) release(g *gor, obj interface{}) {
	if !r.on {
		return
	}
	c := r.clockOf(g)
	o := r.objVC[obj]
	if o == nil {
		o = vclock{}
		r.objVC[obj] = o
	}
	o.join(c)
	c[g.id]++
}

// acquire: g learns everything released into obj.
func (r *raceState) acquire(g *gor, obj interface{}) {
	if !r.on {
		return
	}
	if o := r.objVC[obj]; o != nil {
		r.clockOf(g).join(o)
	}
}

func (r *raceState) hb(a access, c vclock) bool { return a.clock <= c[a.gid] }

func (r *raceState) report(fr *frame, what string, prev access, pos token.Pos, g *gor) {
	fset := fr.i.prog.Fset
	msg := fmt.Sprintf("data race: %s at %s by g%d (%s) is not ordered with the previous access at %s by g%d", what, fset.Position(pos), g.id, g.name, fset.Position(prev.pos), prev.gid)
	EX.recordViolation("race", "data race", msg, fset.Position(pos).String(), EX.curModel())
	panic(pathAbort{"violation", "race"})
}

func (r *raceState) read(fr *frame, loc interface{}, pos token.Pos) {
	if !r.on || fr.i.initializing {
		return
	}
	g := curG(fr)
	c := r.clockOf(g)
	s := r.shadow[loc]
	if s == nil {
		s = &shadow{reads: map[int]access{}}
		r.shadow[loc] = s
	}
	if s.hasW && s.write.gid != g.id && !r.hb(s.write, c) {
		r.report(fr, "read", s.write, pos, g)
	}
	s.reads[g.id] = access{g.id, c[g.id], pos}
}

func (r *raceState) write(fr *frame, loc interface{}, pos token.Pos) {
	if !r.on || fr.i.initializing {
		return
	}
	g := curG(fr)
	c := r.clockOf(g)
	s := r.shadow[loc]
	if s == nil {
		s = &shadow{reads: map[int]access{}}
		r.shadow[loc] = s
	}
	if s.hasW && s.write.gid != g.id && !r.hb(s.write, c) {
		r.report(fr, "write", s.write, pos, g)
	}
	for gid, a := range s.reads {
		if gid != g.id && !r.hb(a, c) {
			r.report(fr, "write", a, pos, g)
		}
	}
	s.write = access{g.id, c[g.id], pos}
	s.hasW = true
	s.reads = map[int]access{}
}
