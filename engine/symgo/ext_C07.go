package symgo

// Models added for property C07 (getSignaturesForAddress paging).

import (
	"fmt"
	"go/token"
	"math/big"
	"strings"
)

const c07B58Alphabet = "123456789ABCDEFGHJKLMNPQRSTUVWXYZabcdefghijkmnopqrstuvwxyz"

// c07Base58 is the standard (bitcoin alphabet) base58 encoding, as mr-tron/base58.Encode.
func c07Base58(b []byte) string {
	zeros := 0
	for zeros < len(b) && b[zeros] == 0 {
		zeros++
	}
	n := new(big.Int).SetBytes(b)
	radix := big.NewInt(58)
	mod := new(big.Int)
	var out []byte
	for n.Sign() > 0 {
		n.DivMod(n, radix, mod)
		out = append(out, c07B58Alphabet[mod.Int64()])
	}
	for i := 0; i < zeros; i++ {
		out = append(out, '1')
	}
	for i, j := 0, len(out)-1; i < j; i, j = i+1, j-1 {
		out[i], out[j] = out[j], out[i]
	}
	return string(out)
}

func init() {
	// solana.Signature.String() = base58.Encode(sig[:]) (exact model of the library method for a
	// concrete signature; package solana-go is too large to be a source root of the C07 harnesses).
	const ss = "(github.com/gagliardetto/solana-go.Signature).String"
	if externals[ss] == nil {
		externals[ss] = func(fr *frame, args []value) value {
			stub("solana.Signature.String (model: exact base58 of the concretised 64 bytes)")
			in := args[0].(array)
			b := make([]byte, len(in))
			for i := range in {
				b[i] = concretize(in[i], "signature byte").(uint8)
			}
			return c07Base58(b)
		}
	}
}

// c07Base58Decode: standard base58 decoding with mr-tron/base58.Decode's error cases (empty
// string, character outside the alphabet).
func c07Base58Decode(in string) ([]byte, error) {
	if len(in) == 0 {
		return nil, fmt.Errorf("zero length string")
	}
	zeros := 0
	for zeros < len(in) && in[zeros] == '1' {
		zeros++
	}
	n := new(big.Int)
	radix := big.NewInt(58)
	for _, r := range in {
		if r > 127 {
			return nil, fmt.Errorf("high-bit set on invalid digit")
		}
		d := strings.IndexRune(c07B58Alphabet, r)
		if d < 0 {
			return nil, fmt.Errorf("invalid base58 digit (%q)", r)
		}
		n.Mul(n, radix)
		n.Add(n, big.NewInt(int64(d)))
	}
	return append(make([]byte, zeros), n.Bytes()...), nil
}

// c07UnlessBody registers model for a library function, used only when the function has no SSA
// body in the current obligation (its package is not a source root); otherwise the real body runs.
func c07UnlessBody(name string, model externalFn) {
	if externals[name] != nil {
		return
	}
	var self externalFn
	self = func(fr *frame, args []value) value {
		if fr.fn != nil && fr.fn.Blocks != nil {
			delete(externals, name)
			defer func() { externals[name] = self }()
			return callSSA(fr.i, fr.caller, token.NoPos, fr.fn, args, nil)
		}
		return model(fr, args)
	}
	externals[name] = self
}

func c07FixedFromBase58(what string, n int) externalFn {
	return func(fr *frame, args []value) value {
		stub("solana." + what + "FromBase58 (model: exact base58 decoding + length check)")
		out := make(array, n)
		for i := range out {
			out[i] = uint8(0)
		}
		b, err := c07Base58Decode(args[0].(string))
		if err != nil {
			return tuple{out, newEngineError(err.Error(), nil)}
		}
		if len(b) != n {
			return tuple{out, newEngineError(fmt.Sprintf("invalid length, expected %d, got %d", n, len(b)), nil)}
		}
		for i := range out {
			out[i] = b[i]
		}
		return tuple{out, iface{}}
	}
}

func init() {
	c07UnlessBody("github.com/gagliardetto/solana-go.SignatureFromBase58", c07FixedFromBase58("Signature", 64))
	c07UnlessBody("github.com/gagliardetto/solana-go.PublicKeyFromBase58", c07FixedFromBase58("PublicKey", 32))
	c07UnlessBody("(github.com/gagliardetto/solana-go.PublicKey).String", func(fr *frame, args []value) value {
		stub("solana.PublicKey.String (model: exact base58)")
		in := args[0].(array)
		b := make([]byte, len(in))
		for i := range in {
			b[i] = concretize(in[i], "public key byte").(uint8)
		}
		return c07Base58(b)
	})
}
