package symgo

// Models added for property C07 (getSignaturesForAddress paging).

import (
	"math/big"
)

const c07B58Alphabet = "123456789ABCDEFGHJKLMNPQRSTUVWXYZabcdefghijkmnopqrstuvwxyz"

// c07Base58 is the standard (bitcoin alphabet) base58 encoding, as mr-tron/base58.Encode.
func c07Base58(b []byte) string {
	zeros := 0
	for zeros < len(b) && b[zeros] == 0 {
		zeros++
	}
	n := new(big.Int).SetBytes(b)
	radix := big.NewInt(58)
	mod := new(big.Int)
	var out []byte
	for n.Sign() > 0 {
		n.DivMod(n, radix, mod)
		out = append(out, c07B58Alphabet[mod.Int64()])
	}
	for i := 0; i < zeros; i++ {
		out = append(out, '1')
	}
	for i, j := 0, len(out)-1; i < j; i, j = i+1, j-1 {
		out[i], out[j] = out[j], out[i]
	}
	return string(out)
}

func init() {
	// solana.Signature.String() = base58.Encode(sig[:]) (exact model of the library method for a
	// concrete signature; package solana-go is too large to be a source root of the C07 harnesses).
	const ss = "(github.com/gagliardetto/solana-go.Signature).String"
	if externals[ss] == nil {
		externals[ss] = func(fr *frame, args []value) value {
			stub("solana.Signature.String (model: exact base58 of the concretised 64 bytes)")
			in := args[0].(array)
			b := make([]byte, len(in))
			for i := range in {
				b[i] = concretize(in[i], "signature byte").(uint8)
			}
			return c07Base58(b)
		}
	}
}
