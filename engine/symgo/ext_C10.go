package symgo

// C10: callees outside package main that the C10 harnesses of package main replace by model
// functions written in Go inside the harness (redirectToHarnessChained, see ext_C16.go: the
// redirection is active only when the harness under analysis defines the model function).
func init() {
	const repo = "github.com/rpcpool/yellowstone-faithful/"
	for ext, h := range map[string]string{
		// C10.load, epoch 0: reading genesis.tar.bz2 (tar/bzip2/bincode) and the hash constructor
		repo + "radiance/genesis.ReadGenesisFromFile":     "c10Model_ReadGenesisFromFile",
		"github.com/gagliardetto/solana-go.HashFromBytes": "c10Model_HashFromBytes",
		// C10.fetch: the hash-index containers behind the real index readers (C04 decides them)
		"(*" + repo + "compactindexsized.DB).Lookup":       "c10Model_DBLookup",
		"(*" + repo + "deprecated/compactindex.DB).Lookup": "c10Model_DeprecatedDBLookup",
		// C10.fetch, local-file branch: the carv2 reader of a local CARv1 file (mmap + offset reader)
		"(*github.com/ipld/go-car/v2.Reader).DataReader": "c10Model_carv2DataReader",
		// C10.meta.gsfa: sorting of the (empty) key set in GsfaWriter.Close
		"(github.com/gagliardetto/solana-go.PublicKeySlice).Sort": "c10Model_PKSort",
	} {
		redirectToHarnessChained(ext, h)
	}
}
