package symgo

// One long-lived SMT solver process (z3 -in / cvc5 --incremental) fed through a pipe.
// Term definitions are emitted once at assertion level 0 as define-fun; every query is
// (push) asserts (check-sat) [get-value] (pop).

import (
	"bufio"
	"fmt"
	"io"
	"os"
	"os/exec"
	"strconv"
	"strings"
	"time"
)

type SatResult int

const (
	Unsat SatResult = iota
	Sat
	Unknown
)

func (r SatResult) String() string { return [...]string{"unsat", "sat", "unknown"}[r] }

type Solver struct {
	Name      string
	cmd       *exec.Cmd
	in        io.WriteCloser
	out       *bufio.Reader
	defined   map[int]bool
	declared  map[string]bool
	Queries   int
	NSat      int
	NUnsat    int
	NUnknown  int
	Time      time.Duration
	TimeoutMs int
	log       io.Writer
	dead      bool
}

func NewSolver(kind string, timeoutMs int) (*Solver, error) {
	var cmd *exec.Cmd
	switch kind {
	case "z3":
		cmd = exec.Command("z3", "-in")
	case "z3-new":
		cmd = exec.Command("z3-new", "-in")
	case "cvc5":
		cmd = exec.Command("cvc5", "--incremental", "--produce-models", "--lang=smt2")
	case "cvc5-bvint":
		cmd = exec.Command("cvc5", "--incremental", "--produce-models", "--lang=smt2", "--solve-bv-as-int=sum")
	default:
		return nil, fmt.Errorf("unknown solver %q", kind)
	}
	in, err := cmd.StdinPipe()
	if err != nil {
		return nil, err
	}
	out, err := cmd.StdoutPipe()
	if err != nil {
		return nil, err
	}
	cmd.Stderr = os.Stderr
	if err := cmd.Start(); err != nil {
		return nil, err
	}
	s := &Solver{Name: kind, cmd: cmd, in: in, out: bufio.NewReaderSize(out, 1<<20), defined: map[int]bool{}, declared: map[string]bool{}, TimeoutMs: timeoutMs}
	if p := os.Getenv("SYMGO_SMTLOG"); p != "" {
		f, _ := os.OpenFile(p, os.O_CREATE|os.O_WRONLY|os.O_APPEND, 0o644)
		s.log = f
	}
	if strings.HasPrefix(kind, "z3") {
		s.send("(set-option :produce-models true)")
		s.send(fmt.Sprintf("(set-option :timeout %d)", timeoutMs))
	} else {
		s.send("(set-logic ALL)")
		s.send(fmt.Sprintf("(set-option :tlimit-per %d)", timeoutMs))
	}
	return s, nil
}

func (s *Solver) send(line string) {
	if s.log != nil {
		fmt.Fprintln(s.log, line)
	}
	io.WriteString(s.in, line)
	io.WriteString(s.in, "\n")
}

func (s *Solver) Close() {
	if s == nil || s.dead {
		return
	}
	s.dead = true
	s.send("(exit)")
	s.in.Close()
	done := make(chan struct{})
	go func() { s.cmd.Wait(); close(done) }()
	select {
	case <-done:
	case <-time.After(2 * time.Second):
		s.cmd.Process.Kill()
	}
}

// define makes sure t (and everything below it) is known to the solver.
func (s *Solver) define(t *Term) {
	switch t.Op {
	case OpConst, OpTrue, OpFalse:
		return
	case OpVar:
		if !s.declared["v:"+t.Name] {
			s.declared["v:"+t.Name] = true
			s.send(fmt.Sprintf("(declare-const %s %s)", smtName(t.Name), sortOf(t.W)))
		}
		return
	}
	if s.defined[t.ID] {
		return
	}
	// iterative post-order to avoid deep recursion on long chains
	type fr struct {
		t *Term
		i int
	}
	stack := []fr{{t, 0}}
	for len(stack) > 0 {
		top := &stack[len(stack)-1]
		if top.i < len(top.t.Args) {
			c := top.t.Args[top.i]
			top.i++
			switch c.Op {
			case OpConst, OpTrue, OpFalse:
			case OpVar:
				s.define(c)
			default:
				if !s.defined[c.ID] {
					stack = append(stack, fr{c, 0})
				}
			}
			continue
		}
		x := top.t
		stack = stack[:len(stack)-1]
		if s.defined[x.ID] {
			continue
		}
		if x.Op == OpUF && !s.declared["f:"+x.Name] {
			s.declared["f:"+x.Name] = true
			internMu.Lock()
			d := ufDecls[x.Name]
			internMu.Unlock()
			s.send(d)
		}
		s.defined[x.ID] = true
		s.send(fmt.Sprintf("(define-fun t%d () %s %s)", x.ID, sortOf(x.W), x.body()))
	}
}

func (s *Solver) readLine() (string, error) {
	for {
		l, err := s.out.ReadString('\n')
		if err != nil {
			return strings.TrimSpace(l), err
		}
		l = strings.TrimSpace(l)
		if l != "" {
			return l, nil
		}
	}
}

// Check decides the conjunction of asserts. If want is non-empty and the result is sat, the
// values of the want terms are returned (in order).
func (s *Solver) Check(asserts []*Term, want []*Term) (SatResult, []uint64, error) {
	if s.dead {
		return Unknown, nil, fmt.Errorf("solver dead")
	}
	t0 := time.Now()
	defer func() { s.Time += time.Since(t0) }()
	for _, a := range asserts {
		s.define(a)
	}
	for _, w := range want {
		s.define(w)
	}
	s.Queries++
	s.send("(push 1)")
	for _, a := range asserts {
		s.send("(assert " + a.ref() + ")")
	}
	s.send("(check-sat)")
	line, err := s.readLine()
	if err != nil {
		s.dead = true
		return Unknown, nil, fmt.Errorf("solver %s: %v (%q)", s.Name, err, line)
	}
	var res SatResult
	switch line {
	case "sat":
		res = Sat
		s.NSat++
	case "unsat":
		res = Unsat
		s.NUnsat++
	case "unknown", "timeout":
		res = Unknown
		s.NUnknown++
	default:
		// any (error ...) line => inconclusive
		s.NUnknown++
		s.send("(pop 1)")
		return Unknown, nil, fmt.Errorf("solver %s said: %s", s.Name, line)
	}
	var vals []uint64
	if res == Sat && len(want) > 0 {
		var sb strings.Builder
		sb.WriteString("(get-value (")
		for i, w := range want {
			if i > 0 {
				sb.WriteByte(' ')
			}
			sb.WriteString(w.ref())
		}
		sb.WriteString("))")
		s.send(sb.String())
		txt, err := s.readSexp()
		if err != nil {
			s.dead = true
			return Unknown, nil, err
		}
		if strings.HasPrefix(txt, "(error") {
			s.send("(pop 1)")
			return Unknown, nil, fmt.Errorf("solver %s get-value: %s", s.Name, txt)
		}
		vals, err = parseValues(txt, len(want))
		if err != nil {
			s.send("(pop 1)")
			return Unknown, nil, err
		}
	}
	s.send("(pop 1)")
	return res, vals, nil
}

// readSexp reads one balanced s-expression (possibly spanning lines).
func (s *Solver) readSexp() (string, error) {
	var sb strings.Builder
	depth := 0
	started := false
	inBar := false
	for {
		c, err := s.out.ReadByte()
		if err != nil {
			return sb.String(), err
		}
		if !started {
			if c == ' ' || c == '\n' || c == '\r' || c == '\t' {
				continue
			}
			started = true
		}
		sb.WriteByte(c)
		if c == '|' {
			inBar = !inBar
		}
		if inBar {
			continue
		}
		if c == '(' {
			depth++
		} else if c == ')' {
			depth--
			if depth == 0 {
				return sb.String(), nil
			}
		} else if depth == 0 && c == '\n' {
			return strings.TrimSpace(sb.String()), nil
		}
	}
}

// parseValues extracts the value of every pair of a get-value answer, in order.
// Answer shape: ((name val) (name val) ...), val in {#x.., #b.., true, false, (_ bvN w)}.
func parseValues(txt string, n int) ([]uint64, error) {
	toks := tokenize(txt)
	// walk: depth 2 lists; the value is the last atom/list inside each pair
	var vals []uint64
	depth := 0
	var pairToks []string
	for _, t := range toks {
		switch t {
		case "(":
			depth++
			if depth >= 2 {
				pairToks = append(pairToks, t)
			}
		case ")":
			if depth >= 2 {
				pairToks = append(pairToks, t)
			}
			depth--
			if depth == 1 {
				v, err := lastValue(pairToks)
				if err != nil {
					return nil, fmt.Errorf("%v in %q", err, txt)
				}
				vals = append(vals, v)
				pairToks = pairToks[:0]
			}
		default:
			if depth >= 2 {
				pairToks = append(pairToks, t)
			}
		}
	}
	if len(vals) != n {
		return nil, fmt.Errorf("get-value: expected %d values, got %d: %s", n, len(vals), txt)
	}
	return vals, nil
}

func tokenize(s string) []string {
	var toks []string
	i := 0
	for i < len(s) {
		c := s[i]
		switch {
		case c == '(' || c == ')':
			toks = append(toks, string(c))
			i++
		case c == ' ' || c == '\n' || c == '\t' || c == '\r':
			i++
		case c == '|':
			j := i + 1
			for j < len(s) && s[j] != '|' {
				j++
			}
			toks = append(toks, s[i:j+1])
			i = j + 1
		default:
			j := i
			for j < len(s) && !strings.ContainsRune("() \n\t\r", rune(s[j])) {
				j++
			}
			toks = append(toks, s[i:j])
			i = j
		}
	}
	return toks
}

// lastValue parses the value at the end of a "( name value )" token list.
func lastValue(p []string) (uint64, error) {
	// strip outer parens
	if len(p) < 3 {
		return 0, fmt.Errorf("short pair %v", p)
	}
	inner := p[1 : len(p)-1]
	last := inner[len(inner)-1]
	if last == ")" {
		// (_ bvN w)
		if len(inner) >= 5 && inner[len(inner)-5] == "(" && inner[len(inner)-4] == "_" && strings.HasPrefix(inner[len(inner)-3], "bv") {
			return strconv.ParseUint(inner[len(inner)-3][2:], 10, 64)
		}
		return 0, fmt.Errorf("unparsed value %v", inner)
	}
	switch {
	case last == "true":
		return 1, nil
	case last == "false":
		return 0, nil
	case strings.HasPrefix(last, "#x"):
		return strconv.ParseUint(last[2:], 16, 64)
	case strings.HasPrefix(last, "#b"):
		return strconv.ParseUint(last[2:], 2, 64)
	}
	return 0, fmt.Errorf("unparsed value %q", last)
}
