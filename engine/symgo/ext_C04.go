package symgo

// Models added for property C04 (compact hash index).

import "go/types"

func init() {
	// math/bits.LeadingZeros64 / Len64 on a symbolic argument: exact, branch-free ite chain over
	// the bit positions (the table-driven library code would concretise a symbolic table index).
	lz64 := func(x *Term) *Term {
		r := mkConst(64, 64)
		for i := uint8(0); i < 64; i++ {
			bit := tEq(tExtract(x, i, i), mkConst(1, 1))
			r = tIte(bit, mkConst(64, uint64(63-i)), r)
		}
		return r
	}
	externals["math/bits.LeadingZeros64"] = func(fr *frame, args []value) value {
		stub("math/bits.LeadingZeros64 (model: exact ite chain)")
		t, _, _ := scalarTerm(args[0])
		return mkVal(lz64(t), types.Int)
	}
	externals["math/bits.Len64"] = func(fr *frame, args []value) value {
		stub("math/bits.Len64 (model: exact ite chain)")
		t, _, _ := scalarTerm(args[0])
		return mkVal(tBin(OpSub, mkConst(64, 64), lz64(t)), types.Int)
	}
}
