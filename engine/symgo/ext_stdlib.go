package symgo

// Property-independent models of small standard-library leaf functions that behaviour-preserving
// refactorings tend to pull in (slices.Sort/pdqsort -> math/bits.Len, ...). All are exact,
// branch-free ite chains over the bit positions, valid for symbolic and concrete arguments.

import "go/types"

func init() {
	lz := func(x *Term) *Term { // leading zeros of x, as a 64-bit term
		w := x.W
		r := mkConst(64, uint64(w))
		for i := uint8(0); i < w; i++ {
			bit := tEq(tExtract(x, i, i), mkConst(1, 1))
			r = tIte(bit, mkConst(64, uint64(w-1-i)), r)
		}
		return r
	}
	tz := func(x *Term) *Term {
		w := x.W
		r := mkConst(64, uint64(w))
		for i := int(w) - 1; i >= 0; i-- {
			bit := tEq(tExtract(x, uint8(i), uint8(i)), mkConst(1, 1))
			r = tIte(bit, mkConst(64, uint64(i)), r)
		}
		return r
	}
	pop := func(x *Term) *Term {
		r := mkConst(64, 0)
		for i := uint8(0); i < x.W; i++ {
			bit := tEq(tExtract(x, i, i), mkConst(1, 1))
			r = tBin(OpAdd, r, tIte(bit, mkConst(64, 1), mkConst(64, 0)))
		}
		return r
	}
	reg := func(name string, f func(x *Term) *Term) {
		if _, dup := externals[name]; dup {
			return // a per-property model file already provides it
		}
		externals[name] = func(fr *frame, args []value) value {
			stub(name + " (model: exact ite chain)")
			t, _, ok := scalarTerm(args[0])
			if !ok {
				panic(pathAbort{"unsupported", name + ": non-scalar argument"})
			}
			return mkVal(f(t), types.Int)
		}
	}
	for _, sfx := range []string{"", "8", "16", "32", "64"} {
		reg("math/bits.LeadingZeros"+sfx, lz)
		reg("math/bits.TrailingZeros"+sfx, tz)
		reg("math/bits.OnesCount"+sfx, pop)
		reg("math/bits.Len"+sfx, func(x *Term) *Term {
			return tBin(OpSub, mkConst(64, uint64(x.W)), lz(x))
		})
	}
}
