package symgo

// Path exploration by re-execution with decision vectors.

import (
	"fmt"
	"sort"
	"strings"
	"time"
)

type DecKind uint8

const (
	DecBranch DecKind = iota // symbolic branch: Val 1 = true side
	DecChoice                // concrete n-ary choice (shape / stub outcome / schedule / map order)
	DecConc                  // concretisation test "term == Val": Taken 1 = equal
)

type Decision struct {
	Kind  DecKind
	Val   uint64 // branch: side; choice: index; conc: candidate value
	Taken uint64 // conc: 1 if equal branch taken
	N       int    // choice arity
	Label   string
	Payload []int // scheduler decisions: goroutines put to sleep (partial-order reduction)
}

func (d Decision) String() string {
	switch d.Kind {
	case DecBranch:
		return fmt.Sprintf("b%d", d.Val)
	case DecChoice:
		return fmt.Sprintf("c%d/%d:%s", d.Val, d.N, d.Label)
	default:
		return fmt.Sprintf("k%d=%d", d.Taken, d.Val)
	}
}

// PathVector is a concrete input assignment taken from the model of a completed path.
type PathVector struct {
	Inputs map[string]uint64            `json:"inputs"`
	UF     map[string]map[string]uint64 `json:"uf"`
	Obs    []string                     `json:"obs,omitempty"`
	Viol   bool                         `json:"violated"`
}

type workItem struct {
	prefix []Decision
	model  *Model
}

// pathAbort is panicked to unwind the interpreter at the end of a path.
type pathAbort struct {
	status string // "infeasible", "violation", "unsupported", "unwind", "budget", "known", "done"
	msg    string
}

type Violation struct {
	Oblig    string            `json:"obligation"`
	Label    string            `json:"label"`
	Kind     string            `json:"kind"` // assert | panic | deadlock | alloc
	Msg      string            `json:"msg"`
	Inputs   map[string]uint64 `json:"inputs"`
	UF       map[string]map[string]uint64 `json:"uf,omitempty"`
	Trail    []string          `json:"trail"`
	Known    string            `json:"known_finding,omitempty"`
	Pos      string            `json:"pos,omitempty"`
	Replayed string            `json:"replayed,omitempty"`
}

type Limits struct {
	Unwind       int   // max symbolic decisions at one branch instruction per frame
	MaxSteps     int64 // instruction budget per path
	MaxPaths     int
	MaxConc      int   // max distinct values per concretisation site occurrence
	AllocLimit   int64 // make() sizes that can exceed this are reported (0 = off)
	MaxViol      int
	TimeBudget   time.Duration
	MaxSwitches  int // bound on context switches per path (0 = unbounded)
}

type Stats struct {
	Paths         int
	PathsOK       int
	PathsInfeas   int
	PathsViol     int
	PathsKnown    int
	PathsPruned   int
	CacheHits     int
	Decisions     int
	Asserts       int
	AssertsSolver int
	Discharged    int
	Inconclusive  []string
	ReachLabels   map[string]int
	Steps         int64
	UnwindFail    int
}

type Explorer struct {
	Solver   *Solver
	Alt      *Solver // optional second back end for arithmetic-heavy queries
	Lim      Limits
	Stats    Stats
	Viols    []Violation
	Known    map[string]bool // active known-finding ids (from known-findings.json)
	KnownHit map[string]int
	Samples  []string
	Oblig    string
	MapOrderNondet bool
	RaceCheck      bool // happens-before race detection on heap cells and maps
	TraceSync      bool // record mutex operations instead of blocking (lock-trace extraction)
	SyncTraces     []SyncTrace
	syncTrace      []SyncEv
	syncObj        map[*mutexState]int
	PathVectors []PathVector // input vectors of completed paths (for translator validation)
	MaxVectors  int
	Params   map[string]int

	work   []workItem
	qcache map[string]qres

	// per-path state
	prefix   []Decision
	pos      int
	trail    []Decision
	pc       []*Term
	model    *Model
	inputs   []*Term
	inputSet map[*Term]bool
	nameCnt  map[string]int
	steps    int64
	known    string // id of known-finding region this path lies in
	start    time.Time
	Funcs    map[string]bool // functions entered
	Stubs    map[string]int  // intrinsic / external models hit
	concrete *Model          // non-nil: concrete replay mode (all nondets taken from here)
	obsLog   []string
}

func NewExplorer(s *Solver, lim Limits) *Explorer {
	return &Explorer{Solver: s, Lim: lim, Known: map[string]bool{}, KnownHit: map[string]int{}, Funcs: map[string]bool{}, Stubs: map[string]int{},
		Stats: Stats{ReachLabels: map[string]int{}}}
}

func (ex *Explorer) resetPath(it workItem) {
	ex.prefix = it.prefix
	ex.pos = 0
	ex.trail = ex.trail[:0]
	ex.pc = ex.pc[:0]
	ex.model = it.model
	if ex.model == nil {
		ex.model = NewModel()
	}
	ex.inputs = ex.inputs[:0]
	ex.inputSet = map[*Term]bool{}
	ex.nameCnt = map[string]int{}
	ex.steps = 0
	ex.known = ""
	ex.obsLog = ex.obsLog[:0]
	ex.syncTrace = nil
	ex.syncObj = nil
}

func (ex *Explorer) inconclusive(msg string) {
	for _, m := range ex.Stats.Inconclusive {
		if m == msg {
			return
		}
	}
	if len(ex.Stats.Inconclusive) < 50 {
		ex.Stats.Inconclusive = append(ex.Stats.Inconclusive, msg)
	}
}

// freshName returns a per-path deterministic unique name for a nondet input.
func (ex *Explorer) freshName(base string) string {
	n := ex.nameCnt[base]
	ex.nameCnt[base] = n + 1
	if n == 0 {
		return base
	}
	return fmt.Sprintf("%s#%d", base, n)
}

func (ex *Explorer) newInput(base string, w uint8) *Term {
	t := mkVar(ex.freshName(base), w)
	if !ex.inputSet[t] {
		ex.inputSet[t] = true
		ex.inputs = append(ex.inputs, t)
	}
	return t
}

func (ex *Explorer) noteInput(t *Term) {
	if !ex.inputSet[t] {
		ex.inputSet[t] = true
		ex.inputs = append(ex.inputs, t)
	}
}

// query decides pc ∧ extra, returning a model on sat. Results are cached by the set of
// asserted terms (terms are hash-consed, so re-executed paths and different schedules with
// the same data constraints hit the cache).
func (ex *Explorer) query(extra ...*Term) (SatResult, *Model) {
	as := make([]*Term, 0, len(ex.pc)+len(extra))
	as = append(as, ex.pc...)
	as = append(as, extra...)
	ids := make([]int, 0, len(as))
	seenID := map[int]bool{}
	for _, a := range as {
		if a == tTrue || seenID[a.ID] {
			continue
		}
		seenID[a.ID] = true
		ids = append(ids, a.ID)
	}
	sort.Ints(ids)
	var kb strings.Builder
	for _, id := range ids {
		fmt.Fprintf(&kb, "%d,", id)
	}
	key := kb.String()
	if ex.qcache == nil {
		ex.qcache = map[string]qres{}
	}
	if c, ok := ex.qcache[key]; ok {
		ex.Stats.CacheHits++
		if c.m != nil {
			// the cached model may stem from another path: its concrete choices are replaced by
			// the current path's (as queryUncached does), else a counterexample replays elsewhere
			mc := c.m.Clone()
			for k := range mc.Vars {
				if strings.HasPrefix(k, "choice:") {
					delete(mc.Vars, k)
				}
			}
			if ex.model != nil {
				for k, v := range ex.model.Vars {
					if strings.HasPrefix(k, "choice:") {
						mc.Vars[k] = v
					}
				}
			}
			return c.res, mc
		}
		return c.res, nil
	}
	res, m := ex.queryUncached(as)
	if res != Unknown {
		var mc *Model
		if m != nil {
			mc = m.Clone()
		}
		ex.qcache[key] = qres{res, mc}
	}
	return res, m
}

type qres struct {
	res SatResult
	m   *Model
}

func (ex *Explorer) queryUncached(as []*Term) (SatResult, *Model) {
	// collect UF applications among inputs too
	want := ex.inputs
	s := ex.Solver
	if ex.Alt != nil {
		seen := map[*Term]bool{}
		hard := false
		for _, a := range as {
			if hasHardArith(a, seen) {
				hard = true
				break
			}
		}
		if hard {
			s = ex.Alt
		}
	}
	res, vals, err := s.Check(as, want)
	if err != nil {
		ex.inconclusive("solver: " + err.Error())
		return Unknown, nil
	}
	if res == Unknown {
		// try the other back end once
		if ex.Alt != nil {
			o := ex.Alt
			if s == ex.Alt {
				o = ex.Solver
			}
			res, vals, err = o.Check(as, want)
			if err != nil || res == Unknown {
				ex.inconclusive("solver unknown/timeout on a query")
				return Unknown, nil
			}
		} else {
			ex.inconclusive("solver unknown/timeout on a query")
			return Unknown, nil
		}
	}
	if res != Sat {
		return res, nil
	}
	m := NewModel()
	// the concrete choices of the current path are part of every model of this path
	if ex.model != nil {
		for k, v := range ex.model.Vars {
			if strings.HasPrefix(k, "choice:") {
				m.Vars[k] = v
			}
		}
	}
	// evaluate argument values of UF inputs under the var assignment: two passes
	for i, t := range want {
		if t.Op == OpVar {
			m.Vars[t.Name] = vals[i]
		}
	}
	for i, t := range want {
		if t.Op == OpUF {
			memo := map[*Term]uint64{}
			avs := make([]uint64, len(t.Args))
			for j, a := range t.Args {
				avs[j] = m.eval(a, memo)
			}
			tab := m.UF[t.Name]
			if tab == nil {
				tab = map[string]uint64{}
				m.UF[t.Name] = tab
			}
			tab[argKey(avs)] = vals[i]
		}
	}
	return Sat, m
}

func hasHardArith(t *Term, seen map[*Term]bool) bool {
	if seen[t] {
		return false
	}
	seen[t] = true
	switch t.Op {
	case OpUDiv, OpURem, OpSDiv, OpSRem:
		return true
	case OpMul:
		if t.W >= 32 {
			return true
		}
	}
	for _, a := range t.Args {
		if hasHardArith(a, seen) {
			return true
		}
	}
	return false
}

func (ex *Explorer) pushWork(d Decision, m *Model) {
	p := make([]Decision, len(ex.trail)+1)
	copy(p, ex.trail)
	p[len(ex.trail)] = d
	ex.work = append(ex.work, workItem{prefix: p, model: m})
}

// Branch decides a symbolic condition.
func (ex *Explorer) Branch(cond *Term) bool {
	if cond == tTrue {
		return true
	}
	if cond == tFalse {
		return false
	}
	if ex.concrete != nil {
		return ex.concrete.Eval(cond) != 0
	}
	ex.Stats.Decisions++
	if ex.pos < len(ex.prefix) {
		d := ex.prefix[ex.pos]
		ex.pos++
		if d.Kind != DecBranch {
			panic(pathAbort{"unsupported", fmt.Sprintf("nondeterministic re-execution: expected %v decision, got branch", d.Kind)})
		}
		ex.trail = append(ex.trail, d)
		if d.Val == 1 {
			ex.pc = append(ex.pc, cond)
			return true
		}
		ex.pc = append(ex.pc, tNot(cond))
		return false
	}
	side := ex.model.Eval(cond) != 0
	var other *Term
	if side {
		other = tNot(cond)
	} else {
		other = cond
	}
	res, m := ex.query(other)
	if res == Sat {
		ov := uint64(1)
		if side {
			ov = 0
		}
		ex.pushWork(Decision{Kind: DecBranch, Val: ov}, m)
	}
	d := Decision{Kind: DecBranch}
	if side {
		d.Val = 1
		ex.pc = append(ex.pc, cond)
	} else {
		ex.pc = append(ex.pc, tNot(cond))
	}
	ex.trail = append(ex.trail, d)
	return side
}

// Choose makes an n-ary concrete nondeterministic choice.
func (ex *Explorer) Choose(n int, label string) int {
	if n <= 1 {
		return 0
	}
	if ex.concrete != nil {
		name := ex.freshName("choice:" + label)
		v := int(ex.concrete.Vars[name])
		if v >= n {
			v = 0
		}
		return v
	}
	ex.Stats.Decisions++
	name := ex.freshName("choice:" + label)
	if ex.pos < len(ex.prefix) {
		d := ex.prefix[ex.pos]
		ex.pos++
		if d.Kind != DecChoice || d.N != n {
			panic(pathAbort{"unsupported", fmt.Sprintf("nondeterministic re-execution at choice %s (n=%d, recorded %v)", label, n, d)})
		}
		ex.trail = append(ex.trail, d)
		ex.model.Vars[name] = d.Val
		return int(d.Val)
	}
	for i := n - 1; i >= 1; i-- {
		m := ex.model.Clone()
		m.Vars[name] = uint64(i)
		ex.pushWork(Decision{Kind: DecChoice, Val: uint64(i), N: n, Label: label}, m)
	}
	ex.trail = append(ex.trail, Decision{Kind: DecChoice, Val: 0, N: n, Label: label})
	ex.model.Vars[name] = 0
	return 0
}

// ChooseP is Choose with a per-alternative payload that is recorded in the decision (used by
// the scheduler for sleep sets).
func (ex *Explorer) ChooseP(n int, label string, payload func(i int) []int) (int, []int) {
	if ex.concrete != nil {
		// replay: recompute the payload of the chosen alternative (the scheduler's sleep set),
		// otherwise the candidate lists - and with them the recorded indices - diverge from the
		// explored path and a schedule-dependent counterexample does not reproduce
		i := ex.Choose(n, label)
		if i == 0 {
			return 0, nil
		}
		return i, payload(i)
	}
	ex.Stats.Decisions++
	name := ex.freshName("choice:" + label)
	if ex.pos < len(ex.prefix) {
		d := ex.prefix[ex.pos]
		ex.pos++
		if d.Kind != DecChoice || d.N != n {
			panic(pathAbort{"unsupported", fmt.Sprintf("nondeterministic re-execution at choice %s (n=%d, recorded %v)", label, n, d)})
		}
		ex.trail = append(ex.trail, d)
		ex.model.Vars[name] = d.Val
		return int(d.Val), d.Payload
	}
	for i := n - 1; i >= 1; i-- {
		m := ex.model.Clone()
		m.Vars[name] = uint64(i)
		ex.pushWork(Decision{Kind: DecChoice, Val: uint64(i), N: n, Label: label, Payload: payload(i)}, m)
	}
	ex.trail = append(ex.trail, Decision{Kind: DecChoice, Val: 0, N: n, Label: label})
	ex.model.Vars[name] = 0
	return 0, nil
}

// Concretize enumerates the feasible values of t one at a time.
func (ex *Explorer) Concretize(t *Term, what string) uint64 {
	if t.IsConst() {
		return t.ConstVal()
	}
	if ex.concrete != nil {
		return ex.concrete.Eval(t)
	}
	for tries := 0; ; tries++ {
		if ex.Lim.MaxConc > 0 && tries > ex.Lim.MaxConc {
			panic(pathAbort{"unsupported", fmt.Sprintf("more than %d feasible concrete values for %s", ex.Lim.MaxConc, what)})
		}
		ex.Stats.Decisions++
		if ex.pos < len(ex.prefix) {
			d := ex.prefix[ex.pos]
			ex.pos++
			if d.Kind != DecConc {
				panic(pathAbort{"unsupported", "nondeterministic re-execution at concretisation of " + what})
			}
			ex.trail = append(ex.trail, d)
			eq := tEq(t, mkConst(t.W, d.Val))
			if d.Taken == 1 {
				ex.pc = append(ex.pc, eq)
				return d.Val
			}
			ex.pc = append(ex.pc, tNot(eq))
			continue
		}
		v := ex.model.Eval(t)
		eq := tEq(t, mkConst(t.W, v))
		res, m := ex.query(tNot(eq))
		if res == Sat {
			ex.pushWork(Decision{Kind: DecConc, Val: v, Taken: 0, Label: what}, m)
		}
		ex.trail = append(ex.trail, Decision{Kind: DecConc, Val: v, Taken: 1, Label: what})
		ex.pc = append(ex.pc, eq)
		return v
	}
}

// Assume adds cond to the path condition; an infeasible path ends silently.
func (ex *Explorer) Assume(cond *Term) {
	if cond == tTrue {
		return
	}
	if ex.concrete != nil {
		if ex.concrete.Eval(cond) == 0 {
			panic(pathAbort{"infeasible", "assumption false under replay vector"})
		}
		return
	}
	if cond == tFalse {
		panic(pathAbort{"infeasible", ""})
	}
	if ex.pos < len(ex.prefix) {
		// still replaying the prefix: feasibility was established when the prefix was created
		ex.pc = append(ex.pc, cond)
		return
	}
	if ex.model.Eval(cond) != 0 {
		ex.pc = append(ex.pc, cond)
		return
	}
	res, m := ex.query(cond)
	switch res {
	case Sat:
		ex.pc = append(ex.pc, cond)
		ex.model = m
	case Unsat:
		panic(pathAbort{"infeasible", ""})
	default:
		panic(pathAbort{"unsupported", "assume: solver unknown"})
	}
}

func (ex *Explorer) snapshotInputs(m *Model) (map[string]uint64, map[string]map[string]uint64) {
	in := map[string]uint64{}
	for _, t := range ex.inputs {
		if t.Op == OpVar {
			in[t.Name] = m.Eval(t)
		}
	}
	for k, v := range m.Vars {
		if strings.HasPrefix(k, "choice:") {
			in[k] = v
		}
	}
	uf := map[string]map[string]uint64{}
	for _, t := range ex.inputs {
		if t.Op == OpUF {
			memo := map[*Term]uint64{}
			avs := make([]uint64, len(t.Args))
			for j, a := range t.Args {
				avs[j] = m.eval(a, memo)
			}
			if uf[t.Name] == nil {
				uf[t.Name] = map[string]uint64{}
			}
			uf[t.Name][argKey(avs)] = m.Eval(t)
		}
	}
	return in, uf
}

func (ex *Explorer) recordViolation(kind, label, msg, pos string, m *Model) {
	v := Violation{Oblig: ex.Oblig, Label: label, Kind: kind, Msg: msg, Known: ex.known, Pos: pos}
	v.Inputs, v.UF = ex.snapshotInputs(m)
	for _, d := range ex.trail {
		v.Trail = append(v.Trail, d.String())
	}
	if ex.known != "" {
		ex.KnownHit[ex.known]++
		ex.Stats.PathsKnown++
		// keep one exemplar per known finding
		for _, o := range ex.Viols {
			if o.Known == ex.known {
				return
			}
		}
	}
	ex.Viols = append(ex.Viols, v)
}

// Assert checks cond on the current path. A failing assertion ends the path.
func (ex *Explorer) Assert(cond *Term, label string, pos string) {
	ex.Stats.Asserts++
	if cond == tTrue {
		ex.Stats.Discharged++
		return
	}
	if ex.concrete != nil {
		if ex.concrete.Eval(cond) == 0 {
			ex.recordViolation("assert", label, "assertion failed (concrete replay)", pos, ex.concrete)
			panic(pathAbort{"violation", label})
		}
		return
	}
	if ex.pos < len(ex.prefix) {
		// replaying: this assertion was decided on the path that created the prefix
		ex.pc = append(ex.pc, cond)
		return
	}
	if cond == tFalse || ex.model.Eval(cond) == 0 {
		ex.recordViolation("assert", label, "assertion can fail", pos, ex.model)
		panic(pathAbort{"violation", label})
	}
	ex.Stats.AssertsSolver++
	res, m := ex.query(tNot(cond))
	switch res {
	case Sat:
		ex.recordViolation("assert", label, "assertion can fail", pos, m)
		// continue on the side where it holds (model still satisfies pc ∧ cond)
		ex.pc = append(ex.pc, cond)
		if ex.known == "" {
			panic(pathAbort{"violation", label})
		}
		panic(pathAbort{"known", label})
	case Unsat:
		ex.Stats.Discharged++
		ex.pc = append(ex.pc, cond)
	default:
		ex.inconclusive("assert " + label + ": solver unknown")
		ex.pc = append(ex.pc, cond)
	}
}

// KnownFinding implements verifKnownFinding(id, cond): if id is listed as an active known
// finding, paths inside the region cond are attributed to it.
func (ex *Explorer) KnownFinding(id string, cond *Term) bool {
	if !ex.Known[id] {
		return false
	}
	if ex.Branch(cond) {
		if ex.known == "" {
			ex.known = id
		}
		return true
	}
	return false
}

// Run explores all paths of run (which executes the harness once).
func (ex *Explorer) Run(run func()) {
	ex.start = time.Now()
	ex.work = []workItem{{}}
	for len(ex.work) > 0 {
		if ex.Lim.MaxPaths > 0 && ex.Stats.Paths >= ex.Lim.MaxPaths {
			ex.inconclusive(fmt.Sprintf("path budget %d exhausted with %d work items left", ex.Lim.MaxPaths, len(ex.work)))
			break
		}
		if ex.Lim.TimeBudget > 0 && time.Since(ex.start) > ex.Lim.TimeBudget {
			ex.inconclusive(fmt.Sprintf("time budget %v exhausted with %d work items left", ex.Lim.TimeBudget, len(ex.work)))
			break
		}
		if ex.Lim.MaxViol > 0 && ex.countNewViol() >= ex.Lim.MaxViol {
			break
		}
		it := ex.work[len(ex.work)-1]
		ex.work = ex.work[:len(ex.work)-1]
		ex.resetPath(it)
		ex.runOne(run)
	}
}

func (ex *Explorer) countNewViol() int {
	n := 0
	for _, v := range ex.Viols {
		if v.Known == "" {
			n++
		}
	}
	return n
}

func (ex *Explorer) runOne(run func()) {
	ex.Stats.Paths++
	status := "done"
	func() {
		defer func() {
			if r := recover(); r != nil {
				if pa, ok := r.(pathAbort); ok {
					status = pa.status
					if pa.status == "unsupported" || pa.status == "budget" {
						ex.inconclusive(pa.status + ": " + pa.msg)
					}
					if pa.status == "unwind" {
						ex.Stats.UnwindFail++
						ex.inconclusive("unwinding assertion failed: " + pa.msg)
					}
					return
				}
				panic(r)
			}
		}()
		run()
	}()
	ex.Stats.Steps += ex.steps
	switch status {
	case "done":
		ex.Stats.PathsOK++
		if ex.pos < len(ex.prefix) {
			ex.inconclusive("re-execution ended before consuming its decision prefix (nondeterminism)")
		}
		if ex.TraceSync {
			ch := map[string]uint64{}
			for k, v := range ex.model.Vars {
				if strings.HasPrefix(k, "choice:") {
					ch[k] = v
				}
			}
			ex.SyncTraces = append(ex.SyncTraces, SyncTrace{Choices: ch, Events: append([]SyncEv{}, ex.syncTrace...)})
		}
		if ex.concrete == nil && len(ex.PathVectors) < ex.MaxVectors {
			in, uf := ex.snapshotInputs(ex.model)
			ex.PathVectors = append(ex.PathVectors, PathVector{Inputs: in, UF: uf})
		}
	case "infeasible":
		ex.Stats.PathsInfeas++
	case "pruned":
		ex.Stats.PathsPruned++
	case "violation":
		ex.Stats.PathsViol++
	}
	if len(ex.Samples) < 6 && (status == "done" || status == "violation") {
		var sb strings.Builder
		fmt.Fprintf(&sb, "path %d status=%s decisions=[", ex.Stats.Paths, status)
		for i, d := range ex.trail {
			if i > 0 {
				sb.WriteByte(' ')
			}
			if i > 40 {
				sb.WriteString("...")
				break
			}
			sb.WriteString(d.String())
		}
		sb.WriteString("] pc=")
		for i, c := range ex.pc {
			if i >= 4 {
				fmt.Fprintf(&sb, " ∧ …(%d more)", len(ex.pc)-4)
				break
			}
			if i > 0 {
				sb.WriteString(" ∧ ")
			}
			s := c.String()
			if len(s) > 160 {
				s = s[:160] + "…"
			}
			sb.WriteString(s)
		}
		ex.Samples = append(ex.Samples, sb.String())
	}
}

func sortedKeys(m map[string]bool) []string {
	var ks []string
	for k := range m {
		ks = append(ks, k)
	}
	sort.Strings(ks)
	return ks
}
