package symgo

// Models added for property C17 (remote-file range cache).
//
// time.NewTicker / (*time.Ticker).Stop are redirected to model functions written as ordinary Go
// in the C17 harness (verifC17NewTicker / verifC17TickerStop): the ticker of
// RangeCache.StartCacheGC then fires a bounded number of times at arbitrary scheduling points.
// Without such a harness function in the loaded program the redirect falls through to the
// previous behaviour (no model: unsupported).

import (
	"go/token"

	"golang.org/x/tools/go/ssa"
)

var c17HarnessFuncs = map[*ssa.Program]map[string]*ssa.Function{}

func c17HarnessFunc(i *interpreter, name string) *ssa.Function {
	m := c17HarnessFuncs[i.prog]
	if m == nil {
		m = map[string]*ssa.Function{}
		c17HarnessFuncs[i.prog] = m
	}
	if f, ok := m[name]; ok {
		return f
	}
	var found *ssa.Function
	for _, p := range i.prog.AllPackages() {
		if f := p.Func(name); f != nil && f.Blocks != nil {
			found = f
			break
		}
	}
	m[name] = found
	return found
}

func c17Redirect(ext, harness string) {
	prev := externals[ext]
	externals[ext] = func(fr *frame, args []value) value {
		if h := c17HarnessFunc(fr.i, harness); h != nil {
			stub(ext + " (cut: model function " + harness + " of the harness)")
			return call(fr.i, fr, token.NoPos, h, args)
		}
		if prev != nil {
			return prev(fr, args)
		}
		if fr.i.initializing {
			return opaqueResult(fr.fn)
		}
		panic(pathAbort{"unsupported", "no model for external function " + ext})
	}
}

func init() {
	c17Redirect("time.NewTicker", "verifC17NewTicker")
	c17Redirect("(*time.Ticker).Stop", "verifC17TickerStop")
}
