package symgo

// Models added for property C11 (fast IPLD node decoders vs the ledger schema).
//
//  1. c11Redirect: fxamacker/cbor's reflection-driven decoder is cut. cbor.NewDecoder and
//     (*cbor.Decoder).Decode are replaced by model functions written as ordinary Go in the
//     harness (same mechanism as redirectToHarness of C01, chaining to an earlier registration).
//     Without a harness function of that name the entries behave as if they did not exist.
//  2. verifC11SchemaText: go:embed variables are filled by the compiler, not by SSA, so the
//     embedded ledger.ipldsch is empty under symgo. The intrinsic returns the text of
//     $VERIF_REPO/ipld/ipldbindcode/ledger.ipldsch read at check time (natively the harness
//     function of the same name returns the embedded bytes).
//  3. strings.Split / strings.Fields on concrete strings (used by the harness' schema parser).
//  4. C11.bytes.*: with fxamacker/cbor as a source root the real byte-level decoder runs
//     (Decoder.Decode, readNext, wellformed, parse, parseArray, getHead, ...). Only the reflective
//     top of (*decoder).value(v) is modelled: for a target *S with S a slice-of-interface type it
//     calls the real, reflection-free (*decoder).parse for the whole data item (parseArray calls
//     parse for every element, like the reflective parseArrayToSlice/parseToValue pair does for
//     elements of interface type) and stores the resulting []interface{}; a data item that is
//     not an array is a type error.
//  5. a minimal reflect.Type: reflect.TypeOf(x) yields one canonical engine object per dynamic type
//     with Kind(), Elem(), String() and identity comparison (fxamacker's parse compares the
//     configured byte-string type with reflect.TypeOf([]byte(nil)) and asks for its Kind).
//     Installed only if no other model of reflect.TypeOf exists.

import (
	"go/token"
	"go/types"
	"os"
	"path/filepath"
	"strings"
)

func c11Redirect(ext, harness string) {
	prev := externals[ext]
	self := func(fr *frame, args []value) value {
		fn := fr.fn
		if fn.Blocks != nil {
			// fxamacker/cbor is loaded from source (C11.bytes.*): no cut, the real decoder runs
			skipExternalOnce = fn
			return callSSA(fr.i, fr.caller, token.NoPos, fn, args, nil)
		}
		if h := harnessFunc(fr.i, harness); h != nil {
			stub(ext + " (cut: model function " + harness + " of the harness)")
			return call(fr.i, fr, token.NoPos, h, args)
		}
		if prev != nil {
			return prev(fr, args)
		}
		if fr.i.initializing {
			return opaqueResult(fn)
		}
		panic(pathAbort{"unsupported", "no model for external function " + fn.String()})
	}
	externals[ext] = self
}

var c11SchemaCache = map[string]string{}

var (
	c11RTypeT     *types.Named
	c11RTypeCells = map[string]*value{}
	c11RTypeOf    = map[*value]types.Type{}
)

func c11InstallReflect(i *interpreter) {
	if c11RTypeT != nil {
		return
	}
	obj := types.NewTypeName(token.NoPos, rtPkg, "rtype", nil)
	st := types.NewStruct([]*types.Var{types.NewField(token.NoPos, rtPkg, "name", types.Typ[types.String], false)}, nil)
	c11RTypeT = types.NewNamed(obj, st, nil)
	var kindT, typeT types.Type = types.Typ[types.Uint], types.NewInterfaceType(nil, nil)
	if rp := i.prog.ImportedPackage("reflect"); rp != nil {
		if o := rp.Pkg.Scope().Lookup("Kind"); o != nil {
			kindT = o.Type()
		}
		if o := rp.Pkg.Scope().Lookup("Type"); o != nil {
			typeT = o.Type()
		}
	}
	add := func(name string, res types.Type, impl externalFn) {
		recv := types.NewVar(token.NoPos, rtPkg, "t", types.NewPointer(c11RTypeT))
		sig := types.NewSignatureType(recv, nil, nil, nil, types.NewTuple(types.NewVar(token.NoPos, rtPkg, "", res)), false)
		c11RTypeT.AddMethod(types.NewFunc(token.NoPos, rtPkg, name, sig))
		engineFns["rtype."+name] = i.prog.NewFunction(name, sig, "engine")
		externals["(*symgo/rt.rtype)."+name] = impl
	}
	typeOfCell := func(v value) types.Type {
		p, _ := v.(*value)
		t := c11RTypeOf[p]
		if t == nil {
			panic(pathAbort{"unsupported", "reflect.Type model: method call on an unknown type object"})
		}
		return t
	}
	add("Kind", kindT, func(fr *frame, args []value) value { return c11ReflectKind(typeOfCell(args[0])) })
	add("String", types.Typ[types.String], func(fr *frame, args []value) value { return typeOfCell(args[0]).String() })
	add("Elem", typeT, func(fr *frame, args []value) value {
		switch u := typeOfCell(args[0]).Underlying().(type) {
		case *types.Pointer:
			return c11RType(u.Elem())
		case *types.Slice:
			return c11RType(u.Elem())
		case *types.Array:
			return c11RType(u.Elem())
		case *types.Map:
			return c11RType(u.Elem())
		case *types.Chan:
			return c11RType(u.Elem())
		}
		panic(targetPanicMsg("reflect: Elem of invalid type"))
	})
}

// c11RType returns the canonical reflect.Type object of t.
func c11RType(t types.Type) value {
	key := types.TypeString(t, nil)
	cell := c11RTypeCells[key]
	if cell == nil {
		c := value(structure{key})
		cell = &c
		c11RTypeCells[key] = cell
		c11RTypeOf[cell] = t
	}
	return iface{t: types.NewPointer(c11RTypeT), v: cell}
}

func c11ReflectKind(t types.Type) value {
	k := uint(0)
	switch u := t.Underlying().(type) {
	case *types.Basic:
		switch u.Kind() {
		case types.Bool:
			k = 1
		case types.Int:
			k = 2
		case types.Int8:
			k = 3
		case types.Int16:
			k = 4
		case types.Int32:
			k = 5
		case types.Int64:
			k = 6
		case types.Uint:
			k = 7
		case types.Uint8:
			k = 8
		case types.Uint16:
			k = 9
		case types.Uint32:
			k = 10
		case types.Uint64:
			k = 11
		case types.Uintptr:
			k = 12
		case types.Float32:
			k = 13
		case types.Float64:
			k = 14
		case types.Complex64:
			k = 15
		case types.Complex128:
			k = 16
		case types.String:
			k = 24
		case types.UnsafePointer:
			k = 26
		}
	case *types.Array:
		k = 17
	case *types.Chan:
		k = 18
	case *types.Signature:
		k = 19
	case *types.Interface:
		k = 20
	case *types.Map:
		k = 21
	case *types.Pointer:
		k = 22
	case *types.Slice:
		k = 23
	case *types.Struct:
		k = 25
	}
	return k
}

func init() {
	c11Redirect("github.com/fxamacker/cbor/v2.NewDecoder", "c11Model_cborNewDecoder")
	c11Redirect("(*github.com/fxamacker/cbor/v2.Decoder).Decode", "c11Model_cborDecode")
	c11Redirect("github.com/fxamacker/cbor/v2.Unmarshal", "c11Model_cborUnmarshal")

	verifIntrinsics["verifC11SchemaText"] = func(fr *frame, args []value) value {
		repo := os.Getenv("VERIF_REPO")
		if repo == "" {
			repo = "/repo"
		}
		p := filepath.Join(repo, "ipld", "ipldbindcode", "ledger.ipldsch")
		if s, ok := c11SchemaCache[p]; ok {
			return s
		}
		b, err := os.ReadFile(p)
		if err != nil {
			panic(pathAbort{"unsupported", "verifC11SchemaText: " + err.Error()})
		}
		stub("verifC11SchemaText (the go:embed of ledger.ipldsch, read from the checked tree)")
		c11SchemaCache[p] = string(b)
		return string(b)
	}

	if externals["reflect.TypeOf"] == nil {
		externals["reflect.TypeOf"] = func(fr *frame, args []value) value {
			c11InstallReflect(fr.i)
			x, _ := args[0].(iface)
			if x.t == nil {
				return iface{}
			}
			stub("reflect.TypeOf (model: canonical type object with Kind/Elem/String and identity)")
			return c11RType(x.t)
		}
	}

	const cborPkg = "github.com/fxamacker/cbor/v2"
	externals["(*"+cborPkg+".decoder).value"] = func(fr *frame, args []value) value {
		pkg := fr.i.prog.ImportedPackage(cborPkg)
		if pkg == nil || pkg.Type("decoder") == nil {
			panic(pathAbort{"unsupported", "cbor decoder.value: fxamacker/cbor is not a source root"})
		}
		parse := fr.i.prog.LookupMethod(types.NewPointer(pkg.Type("decoder").Type()), pkg.Pkg, "parse")
		target, ok := args[1].(iface)
		if !ok || parse == nil || parse.Blocks == nil {
			panic(pathAbort{"unsupported", "cbor decoder.value: no body for (*decoder).parse"})
		}
		pt, isPtr := target.t.Underlying().(*types.Pointer)
		if !isPtr {
			panic(pathAbort{"unsupported", "cbor decoder.value: target is not a pointer"})
		}
		st, isSlice := pt.Elem().Underlying().(*types.Slice)
		if !isSlice || !types.IsInterface(st.Elem()) {
			panic(pathAbort{"unsupported", "cbor decoder.value: only *[]interface{}-like targets are modelled, got " + target.t.String()})
		}
		stub("(*cbor.decoder).value (model: reflective assignment to a slice of interface = the real (*decoder).parse of the data item)")
		res := call(fr.i, fr, token.NoPos, parse, []value{args[0], false}).(tuple)
		if e, _ := res[1].(iface); e.t != nil {
			return res[1]
		}
		iv, _ := res[0].(iface)
		items, isArr := iv.v.([]value)
		if !isArr {
			return newEngineError("cbor: cannot unmarshal a data item that is not an array into Go value of type "+pt.Elem().String(), nil)
		}
		*(target.v.(*value)) = items
		return iface{}
	}

	if externals["strings.Split"] == nil {
		externals["strings.Split"] = func(fr *frame, args []value) value {
			var out []value
			for _, s := range strings.Split(args[0].(string), args[1].(string)) {
				out = append(out, s)
			}
			return out
		}
	}
	if externals["strings.Fields"] == nil {
		externals["strings.Fields"] = func(fr *frame, args []value) value {
			var out []value
			for _, s := range strings.Fields(args[0].(string)) {
				out = append(out, s)
			}
			return out
		}
	}
}
