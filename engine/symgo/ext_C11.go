package symgo

// Models added for property C11 (fast IPLD node decoders vs the ledger schema).
//
//  1. c11Redirect: fxamacker/cbor's reflection-driven decoder is cut. cbor.NewDecoder and
//     (*cbor.Decoder).Decode are replaced by model functions written as ordinary Go in the
//     harness (same mechanism as redirectToHarness of C01, chaining to an earlier registration).
//     Without a harness function of that name the entries behave as if they did not exist.
//  2. verifC11SchemaText: go:embed variables are filled by the compiler, not by SSA, so the
//     embedded ledger.ipldsch is empty under symgo. The intrinsic returns the text of
//     $VERIF_REPO/ipld/ipldbindcode/ledger.ipldsch read at check time (natively the harness
//     function of the same name returns the embedded bytes).
//  3. strings.Split / strings.Fields on concrete strings (used by the harness' schema parser).

import (
	"go/token"
	"os"
	"path/filepath"
	"strings"
)

func c11Redirect(ext, harness string) {
	prev := externals[ext]
	var self externalFn
	self = func(fr *frame, args []value) value {
		if h := harnessFunc(fr.i, harness); h != nil {
			stub(ext + " (cut: model function " + harness + " of the harness)")
			return call(fr.i, fr, token.NoPos, h, args)
		}
		if prev != nil {
			return prev(fr, args)
		}
		fn := fr.fn
		if fn.Blocks == nil {
			if fr.i.initializing {
				return opaqueResult(fn)
			}
			panic(pathAbort{"unsupported", "no model for external function " + fn.String()})
		}
		delete(externals, ext)
		defer func() { externals[ext] = self }()
		return callSSA(fr.i, fr.caller, token.NoPos, fn, args, nil)
	}
	externals[ext] = self
}

var c11SchemaCache = map[string]string{}

func init() {
	c11Redirect("github.com/fxamacker/cbor/v2.NewDecoder", "c11Model_cborNewDecoder")
	c11Redirect("(*github.com/fxamacker/cbor/v2.Decoder).Decode", "c11Model_cborDecode")

	verifIntrinsics["verifC11SchemaText"] = func(fr *frame, args []value) value {
		repo := os.Getenv("VERIF_REPO")
		if repo == "" {
			repo = "/repo"
		}
		p := filepath.Join(repo, "ipld", "ipldbindcode", "ledger.ipldsch")
		if s, ok := c11SchemaCache[p]; ok {
			return s
		}
		b, err := os.ReadFile(p)
		if err != nil {
			panic(pathAbort{"unsupported", "verifC11SchemaText: " + err.Error()})
		}
		stub("verifC11SchemaText (the go:embed of ledger.ipldsch, read from the checked tree)")
		c11SchemaCache[p] = string(b)
		return string(b)
	}

	if externals["strings.Split"] == nil {
		externals["strings.Split"] = func(fr *frame, args []value) value {
			var out []value
			for _, s := range strings.Split(args[0].(string), args[1].(string)) {
				out = append(out, s)
			}
			return out
		}
	}
	if externals["strings.Fields"] == nil {
		externals["strings.Fields"] = func(fr *frame, args []value) value {
			var out []value
			for _, s := range strings.Fields(args[0].(string)) {
				out = append(out, s)
			}
			return out
		}
	}
}
