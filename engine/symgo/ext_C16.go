package symgo

// Models added for property C16 (merge-cars / split-car use io.Copy between bufio and *os.File).
//
// (*os.File).WriteTo and (*os.File).ReadFrom: since Go 1.22 *os.File implements io.WriterTo and
// io.ReaderFrom, so io.Copy / bufio.Reader.WriteTo / bufio.Writer.ReadFrom dispatch to them. Off
// the sendfile/splice fast paths (never taken for a bufio or in-memory peer) the library runs
// genericWriteTo = io.Copy(w, fileWithoutWriteTo{f}) and genericReadFrom =
// io.Copy(fileWithoutReadFrom{f}, r). The models below follow exactly that dispatch: hand over
// to the peer's ReadFrom / WriteTo when it has one, else copy with a 32 KiB buffer.

import (
	"go/token"
	"go/types"
)

func osFilePtrType(fr *frame) types.Type {
	if p := fr.i.prog.ImportedPackage("os"); p != nil {
		if t := p.Type("File"); t != nil {
			return types.NewPointer(t.Type())
		}
	}
	panic(pathAbort{"unsupported", "package os not loaded: cannot type an *os.File interface value"})
}

func isOSFile(t types.Type) bool {
	p, ok := t.(*types.Pointer)
	if !ok {
		return false
	}
	n, ok := p.Elem().(*types.Named)
	return ok && n.Obj().Pkg() != nil && n.Obj().Pkg().Path() == "os" && n.Obj().Name() == "File"
}

// fileToFile copies the rest of src (from its read position) to dst's write position.
func fileToFile(dst, src *openFile) (int64, value) {
	if dst.closed || src.closed {
		return 0, errClosed()
	}
	var n int64
	for src.pos < int64(len(src.mf.data)) {
		if dst.append {
			dst.pos = int64(len(dst.mf.data))
		}
		b := src.mf.data[src.pos]
		for int64(len(dst.mf.data)) <= dst.pos {
			dst.mf.data = append(dst.mf.data, uint8(0))
		}
		dst.mf.data[dst.pos] = b
		dst.pos++
		src.pos++
		n++
	}
	return n, iface{}
}

func init() {
	const chunk = 32 * 1024
	externals["(*os.File).WriteTo"] = func(fr *frame, args []value) value {
		stub("(*os.File).WriteTo (model: generic io.Copy path, no sendfile/splice)")
		src := getOpen(args[0])
		w := args[1].(iface)
		if w.t == nil {
			panic(targetPanicMsg("runtime error: invalid memory address or nil pointer dereference (nil io.Writer)"))
		}
		if isOSFile(w.t) {
			n, err := fileToFile(getOpen(w.v), src)
			return tuple{n, err}
		}
		if m := findMethod(fr.i, w.t, "ReadFrom"); m != nil && m.Signature.Params().Len() == 1 && m.Signature.Results().Len() == 2 {
			return call(fr.i, fr, token.NoPos, m, []value{w.v, iface{t: osFilePtrType(fr), v: args[0]}})
		}
		wr := findMethod(fr.i, w.t, "Write")
		if wr == nil {
			panic(pathAbort{"unsupported", "(*os.File).WriteTo: destination has no Write method"})
		}
		var total int64
		for {
			if src.closed {
				return tuple{total, errClosed()}
			}
			rest := int64(len(src.mf.data)) - src.pos
			if rest <= 0 {
				return tuple{total, iface{}}
			}
			if rest > chunk {
				rest = chunk
			}
			buf := append([]value{}, src.mf.data[src.pos:src.pos+rest]...)
			src.pos += rest
			r := call(fr.i, fr, token.NoPos, wr, []value{w.v, buf}).(tuple)
			total += asInt64(r[0])
			if e := r[1].(iface); e.t != nil {
				return tuple{total, e}
			}
		}
	}
	externals["(*os.File).ReadFrom"] = func(fr *frame, args []value) value {
		stub("(*os.File).ReadFrom (model: generic io.Copy path, no copy_file_range/splice)")
		dst := getOpen(args[0])
		r := args[1].(iface)
		if r.t == nil {
			panic(targetPanicMsg("runtime error: invalid memory address or nil pointer dereference (nil io.Reader)"))
		}
		if isOSFile(r.t) {
			n, err := fileToFile(dst, getOpen(r.v))
			return tuple{n, err}
		}
		if m := findMethod(fr.i, r.t, "WriteTo"); m != nil && m.Signature.Params().Len() == 1 && m.Signature.Results().Len() == 2 {
			return call(fr.i, fr, token.NoPos, m, []value{r.v, iface{t: osFilePtrType(fr), v: args[0]}})
		}
		rd := findMethod(fr.i, r.t, "Read")
		if rd == nil {
			panic(pathAbort{"unsupported", "(*os.File).ReadFrom: source has no Read method"})
		}
		eof := ioEOF(fr).(iface)
		var total int64
		for {
			buf := make([]value, chunk)
			for i := range buf {
				buf[i] = uint8(0)
			}
			res := call(fr.i, fr, token.NoPos, rd, []value{r.v, buf}).(tuple)
			n := asInt64(res[0])
			if n > 0 {
				if dst.closed {
					return tuple{total, errClosed()}
				}
				if dst.append {
					dst.pos = int64(len(dst.mf.data))
				}
				for int64(len(dst.mf.data)) < dst.pos+n {
					dst.mf.data = append(dst.mf.data, uint8(0))
				}
				copy(dst.mf.data[dst.pos:], buf[:n])
				dst.pos += n
				total += n
			}
			if e := res[1].(iface); e.t != nil {
				if sameType(e.t, eof.t) && equals(e.t, e.v, eof.v) {
					return tuple{total, iface{}}
				}
				return tuple{total, e}
			}
		}
	}
}

// redirectToHarnessChained is redirectToHarness (ext_C01.go) for callees that another property
// may already have redirected: the C16 model function wins when the harness under analysis
// defines it, else the previously registered external (if any) keeps its behaviour.
func redirectToHarnessChained(ext, harness string) {
	prev := externals[ext]
	self := func(fr *frame, args []value) value {
		if h := harnessFunc(fr.i, harness); h != nil {
			stub(ext + " (cut: model function " + harness + " of the harness)")
			return call(fr.i, fr, token.NoPos, h, args)
		}
		if prev != nil {
			return prev(fr, args)
		}
		fn := fr.fn
		if fn.Blocks == nil {
			if fr.i.initializing {
				return opaqueResult(fn)
			}
			panic(pathAbort{"unsupported", "no model for external function " + fn.String()})
		}
		skipExternalOnce = fn // run the real body (the externals lookup is cached per function)
		return callSSA(fr.i, fr.caller, token.NoPos, fn, args, nil)
	}
	externals[ext] = self
}

func init() {
	const repo = "github.com/rpcpool/yellowstone-faithful/"
	for ext, h := range map[string]string{
		// C16.split: CAR header CBOR codec (refmt, reflection)
		"github.com/ipfs/go-ipld-cbor.DecodeInto": "c16Model_cborDecodeInto",
		"github.com/ipfs/go-ipld-cbor.DumpObject": "c16Model_cborDumpObject",
		// C16.split: block decoder (C11/C12), ipld-prime builder, carv2 root patching, CID text
		repo + "iplddecoders.DecodeBlock":                  "c16Model_DecodeBlock",
		"github.com/ipld/go-ipld-prime/fluent/qp.BuildMap": "c16Model_qpBuildMap",
		"github.com/ipld/go-car/v2.ReplaceRootsInFile":     "c16Model_replaceRoots",
		"(github.com/ipfs/go-cid.Cid).String":              "c16Model_cidString",
	} {
		redirectToHarnessChained(ext, h)
	}
}
