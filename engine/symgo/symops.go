package symgo

import (
	"fmt"
	"go/token"
	"go/types"
)

// rtPanic is a Go run-time panic raised by the target program (index out of range, nil
// dereference, failed type assertion, ...), as opposed to an engine failure.
type rtPanic string

func (p rtPanic) Error() string { return string(p) }

func targetPanicMsg(s string) rtPanic { return rtPanic(s) }

func mustDeref(t types.Type) types.Type {
	if p, ok := t.Underlying().(*types.Pointer); ok {
		return p.Elem()
	}
	panic(fmt.Sprintf("mustDeref: %v is not a pointer", t))
}

// selectV returns c ? a : b for a bool or symbolic c and scalar a, b.
func selectV(c, a, b value) value {
	if cb, ok := c.(bool); ok {
		if cb {
			return a
		}
		return b
	}
	at, ak, ok1 := scalarTerm(a)
	bt, _, ok2 := scalarTerm(b)
	if !ok1 || !ok2 {
		if truth(c) {
			return a
		}
		return b
	}
	return mkVal(tIte(c.(sym).t, at, bt), ak)
}

func zeroLike(v value) value {
	switch x := v.(type) {
	case sym:
		return concreteOfKind(x.k, 0)
	case bool:
		return false
	case int:
		return int(0)
	case int8:
		return int8(0)
	case int16:
		return int16(0)
	case int32:
		return int32(0)
	case int64:
		return int64(0)
	case uint:
		return uint(0)
	case uint8:
		return uint8(0)
	case uint16:
		return uint16(0)
	case uint32:
		return uint32(0)
	case uint64:
		return uint64(0)
	case uintptr:
		return uintptr(0)
	case string:
		return ""
	case float64:
		return float64(0)
	case float32:
		return float32(0)
	case *value:
		return (*value)(nil)
	case []value:
		return []value(nil)
	case iface:
		return iface{}
	case structure:
		out := make(structure, len(x))
		for i := range x {
			out[i] = zeroLike(x[i])
		}
		return out
	case array:
		out := make(array, len(x))
		for i := range x {
			out[i] = zeroLike(x[i])
		}
		return out
	}
	panic(pathAbort{"unsupported", fmt.Sprintf("clear() of slice with element %T", v)})
}

func symBinop(op token.Token, t types.Type, x, y value) value {
	xt, xk, ok1 := scalarTerm(x)
	yt, yk, ok2 := scalarTerm(y)
	if !ok1 || !ok2 {
		panic(pathAbort{"unsupported", fmt.Sprintf("binary %s on symbolic and %T/%T", op, x, y)})
	}
	if xk == types.Bool {
		switch op {
		case token.EQL:
			return mkVal(tEq(xt, yt), types.Bool)
		case token.NEQ:
			return mkVal(tNot(tEq(xt, yt)), types.Bool)
		}
		panic(fmt.Sprintf("invalid binary op %s on symbolic bool", op))
	}
	w, signed := kindWidth(xk)
	switch op {
	case token.ADD:
		return mkVal(mk(OpAdd, w, 0, xt, yt), xk)
	case token.SUB:
		return mkVal(mk(OpSub, w, 0, xt, yt), xk)
	case token.MUL:
		return mkVal(mk(OpMul, w, 0, xt, yt), xk)
	case token.QUO, token.REM:
		if EX.Branch(tEq(yt, mkConst(w, 0))) {
			panic(targetPanicMsg("runtime error: integer divide by zero"))
		}
		var o Op
		switch {
		case op == token.QUO && signed:
			o = OpSDiv
		case op == token.QUO:
			o = OpUDiv
		case signed:
			o = OpSRem
		default:
			o = OpURem
		}
		return mkVal(mk(o, w, 0, xt, yt), xk)
	case token.AND:
		return mkVal(mk(OpBvAnd, w, 0, xt, yt), xk)
	case token.OR:
		return mkVal(mk(OpBvOr, w, 0, xt, yt), xk)
	case token.XOR:
		return mkVal(mk(OpBvXor, w, 0, xt, yt), xk)
	case token.AND_NOT:
		return mkVal(mk(OpBvAnd, w, 0, xt, mk(OpBvNot, w, 0, yt)), xk)
	case token.SHL, token.SHR:
		yw, ysigned := kindWidth(yk)
		if ysigned {
			if EX.Branch(tBin(OpSlt, yt, mkConst(yw, 0))) {
				panic(targetPanicMsg("runtime error: negative shift amount"))
			}
		}
		var o Op
		switch {
		case op == token.SHL:
			o = OpShl
		case signed:
			o = OpAShr
		default:
			o = OpLShr
		}
		// bring the amount to x's width, saturating when it does not fit
		var amt *Term
		if yw <= w {
			amt = tResize(yt, w, false)
		} else {
			big := tBin(OpUle, mkConst(yw, uint64(w)), yt)
			amt = tIte(big, mkConst(w, uint64(w)), tResize(yt, w, false))
		}
		return mkVal(mk(o, w, 0, xt, amt), xk)
	case token.LSS, token.LEQ, token.GTR, token.GEQ:
		a, b := xt, yt
		if op == token.GTR || op == token.GEQ {
			a, b = yt, xt
		}
		var o Op
		strict := op == token.LSS || op == token.GTR
		switch {
		case strict && signed:
			o = OpSlt
		case strict:
			o = OpUlt
		case signed:
			o = OpSle
		default:
			o = OpUle
		}
		return mkVal(mk(o, 0, 0, a, b), types.Bool)
	case token.EQL:
		return mkVal(tEq(xt, yt), types.Bool)
	case token.NEQ:
		return mkVal(tNot(tEq(xt, yt)), types.Bool)
	}
	panic(fmt.Sprintf("invalid binary op on symbolic: %s", op))
}
