package symgo

// Models of sync, sync/atomic and time on top of the controlled scheduler.

import (
	"fmt"
	"go/token"
	"go/types"
	"strings"
	"unsafe"

	"golang.org/x/tools/go/ssa"
)

type mutexState struct {
	locked         bool
	readers        int
	writersWaiting int
	owner          int
}

type wgState struct{ n int64 }
type onceState struct {
	done    bool
	running bool
}
type poolState struct {
	items []value
	toks  []*int // per item: happens-before token (Put(x) synchronizes before the Get returning x)
}

// syncState is per-path state of synchronisation objects, keyed by the address of the object.
type syncState struct {
	mu   map[*value]*mutexState
	wg   map[*value]*wgState
	once map[*value]*onceState
	pool map[*value]*poolState
	seq  int64
}

var syncSt *syncState

func newSyncState() *syncState {
	return &syncState{mu: map[*value]*mutexState{}, wg: map[*value]*wgState{}, once: map[*value]*onceState{}, pool: map[*value]*poolState{}}
}

func (s *syncState) mutex(p *value) *mutexState {
	if p == nil {
		panic(targetPanicMsg("runtime error: invalid memory address or nil pointer dereference (sync primitive)"))
	}
	m := s.mu[p]
	if m == nil {
		m = &mutexState{}
		s.mu[p] = m
	}
	return m
}

func fieldIndex(t types.Type, name string) int {
	if p, ok := t.Underlying().(*types.Pointer); ok {
		t = p.Elem()
	}
	st, ok := t.Underlying().(*types.Struct)
	if !ok {
		return -1
	}
	for i := 0; i < st.NumFields(); i++ {
		if st.Field(i).Name() == name {
			return i
		}
	}
	return -1
}

func mutexLock(fr *frame, p *value, what string) {
	m := syncSt.mutex(p)
	if EX.TraceSync {
		EX.recordSync(m, "L")
		return
	}
	g := curG(fr)
	if !(m.locked || m.readers > 0) {
		sched.yield(g, what, m)
	}
	if m.locked || m.readers > 0 {
		m.writersWaiting++
		sched.block(g, what, func() bool { return !m.locked && m.readers == 0 }, m)
		m.writersWaiting--
	}
	m.locked = true
	m.owner = g.id
	race.acquire(g, m)
}

func mutexUnlock(fr *frame, p *value) {
	m := syncSt.mutex(p)
	if EX.TraceSync {
		EX.recordSync(m, "U")
		return
	}
	sched.yield(curG(fr), "Unlock", m)
	if !m.locked {
		panic(targetPanicMsg("fatal error: sync: unlock of unlocked mutex"))
	}
	race.release(curG(fr), m)
	m.locked = false
}

func initSyncIntrinsics() {
	e := externals
	e["(*sync.Mutex).Lock"] = func(fr *frame, args []value) value {
		mutexLock(fr, args[0].(*value), "Mutex.Lock")
		return nil
	}
	e["(*sync.Mutex).TryLock"] = func(fr *frame, args []value) value {
		m := syncSt.mutex(args[0].(*value))
		sched.yield(curG(fr), "Mutex.TryLock", m)
		if m.locked {
			return false
		}
		m.locked = true
		return true
	}
	e["(*sync.Mutex).Unlock"] = func(fr *frame, args []value) value {
		mutexUnlock(fr, args[0].(*value))
		return nil
	}
	e["(*sync.RWMutex).Lock"] = func(fr *frame, args []value) value {
		mutexLock(fr, args[0].(*value), "RWMutex.Lock")
		return nil
	}
	e["(*sync.RWMutex).Unlock"] = func(fr *frame, args []value) value {
		mutexUnlock(fr, args[0].(*value))
		return nil
	}
	// Go's RWMutex: a blocked Lock call excludes new readers from acquiring the lock.
	e["(*sync.RWMutex).RLock"] = func(fr *frame, args []value) value {
		m := syncSt.mutex(args[0].(*value))
		if EX.TraceSync {
			EX.recordSync(m, "R")
			return nil
		}
		g := curG(fr)
		if !(m.locked || m.writersWaiting > 0) {
			sched.yield(g, "RWMutex.RLock", commuting{m})
		}
		if m.locked || m.writersWaiting > 0 {
			sched.block(g, "RWMutex.RLock", func() bool { return !m.locked && m.writersWaiting == 0 }, m)
		}
		m.readers++
		race.acquire(g, m)
		return nil
	}
	e["(*sync.RWMutex).RUnlock"] = func(fr *frame, args []value) value {
		m := syncSt.mutex(args[0].(*value))
		if EX.TraceSync {
			EX.recordSync(m, "V")
			return nil
		}
		sched.yield(curG(fr), "RWMutex.RUnlock", commuting{m})
		if m.readers <= 0 {
			panic(targetPanicMsg("fatal error: sync: RUnlock of unlocked RWMutex"))
		}
		race.release(curG(fr), m)
		m.readers--
		return nil
	}
	e["(*sync.WaitGroup).Add"] = func(fr *frame, args []value) value {
		p := args[0].(*value)
		w := syncSt.wg[p]
		if w == nil {
			w = &wgState{}
			syncSt.wg[p] = w
		}
		sched.touch(commuting{w})
		w.n += asInt64(args[1])
		if w.n < 0 {
			panic(targetPanicMsg("sync: negative WaitGroup counter"))
		}
		return nil
	}
	e["(*sync.WaitGroup).Done"] = func(fr *frame, args []value) value {
		p := args[0].(*value)
		w := syncSt.wg[p]
		if w == nil {
			w = &wgState{}
			syncSt.wg[p] = w
		}
		sched.yield(curG(fr), "WaitGroup.Done", commuting{w})
		race.release(curG(fr), w)
		w.n--
		if w.n < 0 {
			panic(targetPanicMsg("sync: negative WaitGroup counter"))
		}
		return nil
	}
	e["(*sync.WaitGroup).Wait"] = func(fr *frame, args []value) value {
		p := args[0].(*value)
		w := syncSt.wg[p]
		if w == nil {
			w = &wgState{}
			syncSt.wg[p] = w
		}
		g := curG(fr)
		if w.n <= 0 {
			sched.yield(g, "WaitGroup.Wait", w)
		}
		if w.n > 0 {
			sched.block(g, "WaitGroup.Wait", func() bool { return w.n == 0 }, w)
		}
		race.acquire(g, w)
		return nil
	}
	e["(*sync.Once).Do"] = func(fr *frame, args []value) value {
		p := args[0].(*value)
		o := syncSt.once[p]
		if o == nil {
			o = &onceState{}
			syncSt.once[p] = o
		}
		g := curG(fr)
		sched.yield(g, "Once.Do", o)
		if o.done {
			race.acquire(g, o)
			return nil
		}
		if o.running {
			sched.block(g, "Once.Do", func() bool { return o.done }, o)
			race.acquire(g, o)
			return nil
		}
		o.running = true
		func() {
			defer func() { race.release(g, o); o.done = true; o.running = false }()
			call(fr.i, fr, token.NoPos, args[1], nil)
		}()
		return nil
	}
	e["(*sync.Pool).Get"] = func(fr *frame, args []value) value {
		p := args[0].(*value)
		ps := syncSt.pool[p]
		if ps == nil {
			ps = &poolState{}
			syncSt.pool[p] = ps
		}
		stub("sync.Pool (model: Get returns any pooled item or New())")
		// Get/Put are scheduling points on the pool: which items are pooled depends on their order
		g := curG(fr)
		sched.yield(g, "Pool.Get", p)
		// decision: reuse one of the pooled items, or allocate
		c := EX.Choose(len(ps.items)+1, "pool.Get")
		if c < len(ps.items) {
			it := ps.items[c]
			ps.items = append(append([]value{}, ps.items[:c]...), ps.items[c+1:]...)
			race.acquire(g, ps.toks[c])
			ps.toks = append(append([]*int{}, ps.toks[:c]...), ps.toks[c+1:]...)
			return it
		}
		st := (*p).(structure)
		newFn := st[len(st)-1]
		if f, ok := newFn.(*ssa.Function); ok && f == nil {
			return iface{}
		}
		return call(fr.i, fr, token.NoPos, newFn, nil)
	}
	e["(*sync.Pool).Put"] = func(fr *frame, args []value) value {
		p := args[0].(*value)
		ps := syncSt.pool[p]
		if ps == nil {
			ps = &poolState{}
			syncSt.pool[p] = ps
		}
		g := curG(fr)
		sched.yield(g, "Pool.Put", p)
		tok := new(int)
		race.release(g, tok)
		ps.items = append(ps.items, args[1])
		ps.toks = append(ps.toks, tok)
		return nil
	}

	// sync/atomic functions on plain words
	for _, ty := range []string{"Int32", "Int64", "Uint32", "Uint64", "Uintptr"} {
		e["sync/atomic.Load"+ty] = func(fr *frame, args []value) value { return load(nil2(args[0]), args[0].(*value)) }
		e["sync/atomic.Store"+ty] = func(fr *frame, args []value) value { *args[0].(*value) = args[1]; return nil }
		e["sync/atomic.Add"+ty] = func(fr *frame, args []value) value {
			p := args[0].(*value)
			*p = binop(token.ADD, nil, *p, args[1])
			return *p
		}
		e["sync/atomic.Swap"+ty] = func(fr *frame, args []value) value {
			p := args[0].(*value)
			old := *p
			*p = args[1]
			return old
		}
		e["sync/atomic.CompareAndSwap"+ty] = func(fr *frame, args []value) value {
			p := args[0].(*value)
			if truth(equalsV(nil, *p, args[1])) {
				*p = args[2]
				return true
			}
			return false
		}
	}
	e["time.Now"] = func(fr *frame, args []value) value {
		stub("time.Now (model: opaque monotonic instants)")
		syncSt.seq++
		return structure{uint64(0), int64(syncSt.seq), (*value)(nil)}
	}
	e["time.Since"] = func(fr *frame, args []value) value {
		stub("time.Since (model: arbitrary non-negative duration)")
		t := EX.newInput("time.Since", 64)
		EX.Assume(tBin(OpSle, mkConst(64, 0), t))
		if EX.concrete != nil {
			return int64(EX.concrete.Eval(t))
		}
		return sym{t, types.Int64}
	}
	e["time.Sleep"] = func(fr *frame, args []value) value {
		sched.yield(curG(fr), "time.Sleep")
		return nil
	}
	e["time.After"] = func(fr *frame, args []value) value {
		stub("time.After (model: fires at an arbitrary later scheduling point)")
		ch := newChan(1)
		spawnEngine(fr, "timer", func(g *gor) {
			ch.trySend(structure{uint64(0), int64(0), (*value)(nil)})
		})
		return ch
	}
	e["(time.Duration).String"] = func(fr *frame, args []value) value { return "<duration>" }
	e["(time.Duration).Seconds"] = func(fr *frame, args []value) value { return float64(0) }
	e["(time.Duration).Milliseconds"] = func(fr *frame, args []value) value { return concretizeOr(args[0], int64(0)) }
	e["(time.Time).Unix"] = func(fr *frame, args []value) value { return int64(0) }
	e["(time.Time).UnixNano"] = func(fr *frame, args []value) value { return int64(0) }
	e["(time.Time).IsZero"] = func(fr *frame, args []value) value {
		st := args[0].(structure)
		return truth(equalsV(nil, st[1], int64(0)))
	}
}

func concretizeOr(v value, def value) value {
	if _, ok := v.(sym); ok {
		return def
	}
	return v
}

func nil2(v value) types.Type { return types.Typ[types.Int] }

// atomicTypedMethod models methods of sync/atomic.Int32/Int64/Uint32/Uint64/Bool/Pointer[T]/Value.
func atomicTypedMethod(name string) externalFn {
	if !strings.HasPrefix(name, "(*sync/atomic.") {
		return nil
	}
	i := strings.LastIndex(name, ").")
	if i < 0 {
		return nil
	}
	meth := name[i+2:]
	// go/ssa names the methods of an instantiated generic type "(*sync/atomic.Pointer[T]).Load[T]"
	if j := strings.IndexByte(meth, '['); j >= 0 {
		meth = meth[:j]
	}
	isPtr := strings.HasPrefix(name, "(*sync/atomic.Pointer[")
	cell := func(args []value) *value {
		p := args[0].(*value)
		if p == nil {
			panic(targetPanicMsg("runtime error: invalid memory address or nil pointer dereference (atomic)"))
		}
		st := (*p).(structure)
		c := &st[len(st)-1]
		// atomic operations synchronise (sequentially consistent): acquire + release on the cell
		if race != nil && race.on {
			race.acquire(sched.cur, c)
			race.release(sched.cur, c)
		}
		return c
	}
	isBool := strings.HasPrefix(name, "(*sync/atomic.Bool)")
	switch meth {
	case "Load":
		return func(fr *frame, args []value) value {
			v := *cell(args)
			if isBool {
				return truthy(v)
			}
			if up, ok := v.(unsafe.Pointer); ok && isPtr && up == nil {
				return (*value)(nil) // zero atomic.Pointer[T]: the nil *T
			}
			return v
		}
	case "Store":
		return func(fr *frame, args []value) value {
			if isBool {
				*cell(args) = boolWord(args[1])
			} else {
				*cell(args) = args[1]
			}
			return nil
		}
	case "Add":
		return func(fr *frame, args []value) value {
			c := cell(args)
			*c = binop(token.ADD, nil, *c, args[1])
			return *c
		}
	case "Swap":
		return func(fr *frame, args []value) value {
			c := cell(args)
			old := *c
			if isBool {
				*c = boolWord(args[1])
				return truthy(old)
			}
			*c = args[1]
			return old
		}
	case "CompareAndSwap":
		return func(fr *frame, args []value) value {
			c := cell(args)
			if isBool {
				if truthy(*c) == args[1].(bool) {
					*c = boolWord(args[2])
					return true
				}
				return false
			}
			same := false
			switch o := (*c).(type) {
			case *value:
				same = o == args[1].(*value)
			default:
				same = truth(equalsV(nil, *c, args[1]))
			}
			if same {
				*c = args[2]
				return true
			}
			return false
		}
	}
	return nil
}

func truthy(v value) bool {
	switch x := v.(type) {
	case uint32:
		return x != 0
	case bool:
		return x
	}
	panic(fmt.Sprintf("truthy: %T", v))
}

func boolWord(v value) value {
	if v.(bool) {
		return uint32(1)
	}
	return uint32(0)
}
