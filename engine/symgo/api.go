package symgo

import (
	"fmt"
	"go/token"
	"go/types"
	"os"
	"path/filepath"
	"runtime"
	"runtime/debug"
	"sort"
	"strings"
	"time"

	"golang.org/x/tools/go/packages"
	"golang.org/x/tools/go/ssa"
	"golang.org/x/tools/go/ssa/ssautil"
)

// EX is the explorer of the obligation being run (one per process).
var EX *Explorer

type Program struct {
	Prog    *ssa.Program
	Pkgs    []*packages.Package
	SSAPkgs []*ssa.Package
	Main    *ssa.Package
	interp  *interpreter
	LoadDur time.Duration
	roots   map[string]bool
}

// ScratchModfile copies dir/go.mod and dir/go.sum into a fresh temporary directory and returns the
// path of the copied go.mod ("" if dir has no go.mod). The caller removes the directory.
func ScratchModfile(dir string) string {
	mod, err := os.ReadFile(filepath.Join(dir, "go.mod"))
	if err != nil {
		return ""
	}
	td, err := os.MkdirTemp("", "symgo-mod-")
	if err != nil {
		return ""
	}
	os.WriteFile(filepath.Join(td, "go.mod"), mod, 0o644)
	if sum, err := os.ReadFile(filepath.Join(dir, "go.sum")); err == nil {
		os.WriteFile(filepath.Join(td, "go.sum"), sum, 0o644)
	}
	return filepath.Join(td, "go.mod")
}

// Load type-checks pkgPath (in dir) together with the extra source roots and builds SSA.
func Load(dir string, pkgPath string, roots []string, overlay map[string][]byte, tags string) (*Program, error) {
	t0 := time.Now()
	cfg := &packages.Config{
		Mode:    packages.LoadSyntax | packages.NeedDeps | packages.NeedImports,
		Dir:     dir,
		Overlay: overlay,
		Env:     append(os.Environ(), "GOFLAGS=-mod=mod", "GOPROXY=off", "GOSUMDB=off", "GOTOOLCHAIN=local"),
	}
	cfg.Mode = packages.LoadSyntax
	if tags != "" {
		cfg.BuildFlags = []string{"-tags=" + tags}
	}
	// never let the go command "fix" the target's go.mod/go.sum (-mod=mod rewrites e.g. an
	// "// indirect" comment when a harness imports that module directly): work on a scratch copy
	if mf := ScratchModfile(dir); mf != "" {
		defer os.RemoveAll(filepath.Dir(mf))
		cfg.BuildFlags = append(cfg.BuildFlags, "-modfile="+mf)
	}
	patterns := append([]string{pkgPath}, roots...)
	var initial []*packages.Package
	var err error
	for round := 0; round < 4; round++ {
		initial, err = packages.Load(cfg, patterns...)
		if err != nil {
			return nil, err
		}
		var errs []string
		packages.Visit(initial, nil, func(p *packages.Package) {
			for _, e := range p.Errors {
				errs = append(errs, e.Error())
			}
		})
		if len(errs) > 0 {
			if len(errs) > 12 {
				errs = errs[:12]
			}
			return nil, fmt.Errorf("package load errors (harness does not build against the current tree?):\n  %s", strings.Join(errs, "\n  "))
		}
		// closure under generic instantiation: packages defining generics used by roots must be roots
		have := map[string]bool{}
		for _, p := range initial {
			have[p.PkgPath] = true
		}
		add := map[string]bool{}
		for _, p := range initial {
			if p.TypesInfo == nil {
				continue
			}
			for id, inst := range p.TypesInfo.Instances {
				_ = inst
				obj := p.TypesInfo.Uses[id]
				if obj == nil || obj.Pkg() == nil {
					continue
				}
				if !have[obj.Pkg().Path()] {
					add[obj.Pkg().Path()] = true
				}
			}
		}
		if len(add) == 0 {
			break
		}
		for a := range add {
			patterns = append(patterns, a)
		}
	}
	prog, pkgs := ssautil.AllPackages(initial, ssa.InstantiateGenerics|ssa.SanityCheckFunctions&0)
	p := &Program{Prog: prog, Pkgs: initial, roots: map[string]bool{}}
	for i, sp := range pkgs {
		if sp == nil {
			return nil, fmt.Errorf("no SSA package for %s", initial[i].PkgPath)
		}
		p.roots[initial[i].PkgPath] = true
		if err := safeBuild(sp); err != nil {
			return nil, err
		}
		if initial[i].PkgPath == pkgPath {
			p.Main = sp
		} else if strings.HasPrefix(pkgPath, ".") && len(initial[i].GoFiles) > 0 {
			want, _ := filepath.Abs(filepath.Join(dir, pkgPath))
			if filepath.Dir(initial[i].GoFiles[0]) == want {
				p.Main = sp
			}
		}
	}
	if p.Main == nil {
		return nil, fmt.Errorf("package %s not found among loaded packages", pkgPath)
	}
	p.SSAPkgs = pkgs
	p.LoadDur = time.Since(t0)
	return p, nil
}

func safeBuild(sp *ssa.Package) (err error) {
	defer func() {
		if r := recover(); r != nil {
			err = fmt.Errorf("cannot build SSA for %s: %v (is a package defining generics used here missing from the source roots?)", sp.Pkg.Path(), r)
		}
	}()
	sp.Build()
	return nil
}

func (p *Program) newInterp() *interpreter {
	i := &interpreter{
		prog:    p.Prog,
		globals: make(map[*ssa.Global]*value),
		sizes:   types.SizesFor("gc", "amd64"),
	}
	if os.Getenv("SYMGO_TRACE_INSTR") != "" {
		i.mode |= EnableTracing
	}
	if rt := p.Prog.ImportedPackage("runtime"); rt != nil {
		if es := rt.Type("errorString"); es != nil {
			i.runtimeErrorString = es.Object().Type()
		}
	}
	if i.runtimeErrorString == nil {
		i.runtimeErrorString = types.NewNamed(types.NewTypeName(token.NoPos, rtPkg, "runtimeError", nil), types.Typ[types.String], nil)
	}
	if errLeafT == nil {
		initEngineTypes(i)
	}
	return i
}

func (i *interpreter) resetGlobals() {
	// globals are (re)created lazily, zero-valued, on first access in each path
	i.globals = make(map[*ssa.Global]*value, 256)
}

// RunResult summarises one obligation.
type RunResult struct {
	Entry     string
	Explorer  *Explorer
	InitSteps int64
	Err       string
}

// Explore runs entry (a niladic function of the main package) under ex over all paths.
func (p *Program) Explore(entry string, ex *Explorer) (err error) {
	fn := p.Main.Func(entry)
	if fn == nil {
		return fmt.Errorf("entry function %s not found in %s", entry, p.Main.Pkg.Path())
	}
	EX = ex
	ackCh = make(chan struct{}, 1024)
	i := p.newInterp()
	p.interp = i
	initFn := p.Main.Func("init")
	run := func() {
		sched = newScheduler()
		syncSt = newSyncState()
		mfs = newMemFS()
		race = newRaceState()
		defer func() {
			leaked := sched.killAll()
			_ = leaked
		}()
		root := &frame{i: i, g: sched.gs[0]}
		// package initialisation (concrete; unmodelled externals yield opaque tokens)
		i.resetGlobals()
		i.initializing = true
		saveSteps := ex.steps
		func() {
			defer func() {
				if r := recover(); r != nil {
					i.initializing = false
					panic(pathAbort{"unsupported", fmt.Sprintf("package initialisation failed: %v", describePanic(r))})
				}
			}()
			call(i, root, token.NoPos, initFn, nil)
		}()
		i.initializing = false
		ex.steps = saveSteps
		// the harness
		func() {
			defer func() {
				r := recover()
				if r == nil {
					return
				}
				switch r := r.(type) {
				case pathAbort:
					panic(r)
				case gorKill:
					panic(pathAbort{"unsupported", "main goroutine killed"})
				case targetPanic:
					msg := "panic: " + panicValueString(root, r.v)
					ex.recordViolation("panic", "panic", msg, lastPos, ex.curModel())
					panic(pathAbort{"violation", "panic"})
				case rtPanic:
					ex.recordViolation("panic", "panic", "panic: "+string(r), lastPos, ex.curModel())
					panic(pathAbort{"violation", "panic"})
				case runtime.Error:
					if _, isTA := r.(*runtime.TypeAssertionError); isTA {
						panic(pathAbort{"unsupported", "engine: " + r.Error() + "\n" + string(debug.Stack())})
					}
					ex.recordViolation("panic", "panic", "panic: "+r.Error(), lastPos, ex.curModel())
					panic(pathAbort{"violation", "panic"})
				default:
					panic(pathAbort{"unsupported", fmt.Sprintf("engine panic: %v\n%s", r, debug.Stack())})
				}
			}()
			call(i, root, token.NoPos, fn, nil)
		}()
	}
	ex.Run(run)
	return nil
}

var lastPos string

func (ex *Explorer) curModel() *Model {
	if ex.concrete != nil {
		return ex.concrete
	}
	return ex.model
}

func describePanic(r interface{}) string {
	switch r := r.(type) {
	case pathAbort:
		return r.status + ": " + r.msg
	case targetPanic:
		return "panic: " + toString(r.v)
	case error:
		return r.Error() + "\n" + string(debug.Stack())
	}
	return fmt.Sprintf("%v\n%s", r, debug.Stack())
}

func panicValueString(fr *frame, v value) string {
	if e, ok := v.(iface); ok {
		if e.t != nil && implementsError(fr.i, e.t) {
			func() {
				defer func() { recover() }()
				v = errorMessage(fr, e)
			}()
			if s, ok := v.(string); ok {
				return s
			}
		}
		if s, ok := e.v.(string); ok {
			return s
		}
	}
	return toString(v)
}

// ReplayConcrete runs entry once with every nondet input taken from the model.
func (p *Program) ReplayConcrete(entry string, ex *Explorer, inputs map[string]uint64, uf map[string]map[string]uint64) {
	m := NewModel()
	for k, v := range inputs {
		m.Vars[k] = v
	}
	for k, t := range uf {
		m.UF[k] = map[string]uint64{}
		for a, v := range t {
			m.UF[k][a] = v
		}
	}
	ex.concrete = m
	ex.Lim.MaxPaths = 1
	p.Explore(entry, ex)
}

// ObsLog returns the observation log of the last path.
func (ex *Explorer) ObsLog() []string { return append([]string{}, ex.obsLog...) }

func (ex *Explorer) FuncList() []string {
	var out []string
	for f := range ex.Funcs {
		out = append(out, f)
	}
	sort.Strings(out)
	return out
}
