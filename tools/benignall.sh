#!/bin/bash
# benignall.sh [id ...] : run every stored behaviour-preserving change (/verif/benign/<id>/patch.diff) against its
# property's quick check on a scratch worktree; every line must say exit=0 (no alarm on code where the property holds).
cd /verif
ids="$@"; [ -z "$ids" ] && ids=$(ls benign | grep '^C')
for id in $ids; do
  prop=${id%%-*}
  out=$(TAIL=400 J=${J:-6} /verif/tools/muttest.sh /verif/benign/$id/patch.diff $prop ${TIER:-quick} 2>&1)
  rc=$(echo "$out" | grep -o "exit=[0-9]*" | tail -1)
  nv=$(echo "$out" | grep -c "^VIOLATION")
  inc=$(echo "$out" | grep "^INCONCLUSIVE" | grep -o "obligation=[^ ]*" | sort | uniq | tr '\n' ' ')
  ob=$(echo "$out" | grep "^VIOLATION" | grep -o "obligation=[^ ]*" | sort | uniq | tr '\n' ' ')
  echo "$id : $rc violations=$nv $ob inconclusive: $inc"
done
