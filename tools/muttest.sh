#!/bin/bash
# muttest.sh <patch.diff> <PROPERTY> [tier] : apply a seeded change to a scratch worktree of /repo HEAD and
# run the property's check against it (VERIF_REPO). Evidence of that run goes to a scratch VERIF evidence copy.
export GOFLAGS=-mod=mod GOPROXY=off GOSUMDB=off GOTOOLCHAIN=local
patchf=$1; prop=$2; tier=${3:-quick}
wt=/tmp/sv/mut_$$
git -C /repo worktree add -q --detach $wt HEAD || exit 3
( cd $wt && (git apply $patchf 2>/dev/null || patch -p1 -F3 -s < $patchf) ) || { echo "PATCH DOES NOT APPLY"; git -C /repo worktree remove --force $wt; exit 4; }
cp /verif/evidence/$prop.json /tmp/sv/ev_$$.json 2>/dev/null
VERIF_REPO=$wt /verif/bin/vcheck run $prop --tier $tier -j ${J:-8} 2>&1 | cut -c1-420 | tail -${TAIL:-8}
rc=${PIPESTATUS[0]}
cp /tmp/sv/ev_$$.json /verif/evidence/$prop.json 2>/dev/null; rm -f /tmp/sv/ev_$$.json
git -C /repo worktree remove --force $wt
echo "exit=$rc"
