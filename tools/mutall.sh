#!/bin/bash
# mutall.sh [seed-id ...] : run every stored seeded change against its property's quick check (and thorough if
# QUICK misses and THOROUGH=1) and print a detection matrix. Uses scratch worktrees; /repo is not touched.
cd /verif
ids="$@"; [ -z "$ids" ] && ids=$(ls -d seeded/*/ | xargs -n1 basename)
for id in $ids; do
  prop=${id%%-*}
  out=$(TAIL=400 J=${J:-6} /verif/tools/muttest.sh /verif/seeded/$id/patch.diff $prop quick 2>&1)
  rc=$(echo "$out" | grep -o "exit=[0-9]*" | tail -1)
  nv=$(echo "$out" | grep -c "^VIOLATION")
  ob=$(echo "$out" | grep "^VIOLATION" | grep -o "obligation=[^ ]*" | sort | uniq | tr '\n' ' ')
  inc=$(echo "$out" | grep -c "^INCONCLUSIVE")
  res="quick: $rc violations=$nv inconclusive=$inc $ob"
  if [ "$nv" = "0" ] && [ -n "$THOROUGH" ]; then
    out=$(TAIL=400 J=${J:-6} /verif/tools/muttest.sh /verif/seeded/$id/patch.diff $prop thorough 2>&1)
    rc=$(echo "$out" | grep -o "exit=[0-9]*" | tail -1)
    nv=$(echo "$out" | grep -c "^VIOLATION")
    ob=$(echo "$out" | grep "^VIOLATION" | grep -o "obligation=[^ ]*" | sort | uniq | tr '\n' ' ')
    res="$res | thorough: $rc violations=$nv $ob"
  fi
  echo "$id : $res"
done
