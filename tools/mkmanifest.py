#!/usr/bin/env python3
"""Regenerate /verif/MANIFEST.json from the obligation registries.

A property is claimed iff it has at least one registered obligation and is not listed in
tools/not_claimed.json (property -> reason). Texts per property come from tools/claims.json
(optional: {"C04": {"text": ..., "note": ..., "technique": ...}}); defaults are derived from the
obligations' desc/bounds/assumes."""
import glob
import json
import os

V = "/verif"
props = [json.loads(l) for l in open(f"{V}/properties.jsonl")]
obls = []
for f in sorted(glob.glob(f"{V}/harness/registry*.json")):
    obls += json.load(open(f))["obligations"]
byprop = {}
for o in obls:
    byprop.setdefault(o["property"], []).append(o)
claims = json.load(open(f"{V}/tools/claims.json")) if os.path.exists(f"{V}/tools/claims.json") else {}
notclaimed = json.load(open(f"{V}/tools/not_claimed.json")) if os.path.exists(f"{V}/tools/not_claimed.json") else {}

checks, na = [], []
for p in props:
    pid = p["id"]
    os_ = byprop.get(pid, [])
    if not os_ or pid in notclaimed:
        na.append({"property_id": pid, "reason": notclaimed.get(pid, "no obligation could be encoded within reach of the symbolic engine (see DESIGN.md)")})
        continue
    c = claims.get(pid, {})
    quick = [o for o in os_ if "quick" in o.get("tiers", {})]
    descs = "; ".join(f"{o['id']}: {o.get('desc','')}" for o in os_)
    bounds = "; ".join(f"{o['id']}: {o.get('bounds','')}" for o in os_ if o.get("bounds"))
    assumes = sorted({a for o in os_ for a in o.get("assumes", [])})
    sched = any(o.get("sched") for o in os_)
    text = c.get("text") or (
        "bounded symbolic model checking of the real code (SSA executed symbolically, every path decided by an SMT solver for all input values on it"
        + (", every interleaving at synchronisation granularity" if sched else "")
        + f"). Obligations — {descs}. Bounds — {bounds}. Nothing is claimed outside these bounds.")
    note = c.get("note") or ("Trusted base: symgo engine (validated per run by native replays of concrete vectors), z3/cvc5, go/ssa. Cuts and assumptions: " + ("; ".join(assumes) if assumes else "none beyond the bounds"))
    tech = c.get("technique") or ("symbolic execution of Go SSA -> SMT (z3/cvc5), bounded" + (" + exhaustive schedule exploration (sleep sets) with happens-before race check" if sched else ""))
    checks.append({
        "property_id": pid,
        "quick_cmd": f"./bin/vcheck run {pid} --tier quick",
        "thorough_cmd": f"./bin/vcheck run {pid} --tier thorough",
        "evidence_file": f"/verif/evidence/{pid}.json",
        "replay_cmd_template": "./bin/vcheck replay {path}",
        "engine": "symgo",
        "level_claimed": {"category": "model_checking", "text": text[:6000], "design_ref": f"DESIGN.md section 0 and section 3 ({pid})"},
        "level_note": note[:4000],
        "technique": tech,
    })

fixes = []
kf = []
for f in [f"{V}/known-findings.json"] + sorted(glob.glob(f"{V}/known-findings.d/*.json")):
    if os.path.exists(f):
        kf += json.load(open(f))["findings"]
fixes = sorted({k["commit"] for k in kf if k.get("status") == "fixed" and k.get("commit")})
m = {
    "version": 1,
    "setup_cmd": "./setup.sh",
    "hooks": {
        "guard": "verif",
        "enable": "harness files carrying //go:build verif are injected through a go/packages (and go test -overlay) overlay with -tags=verif; nothing is written to /repo",
        "baseline_off_cmd": "cd /repo && GOFLAGS=-mod=mod GOPROXY=off GOSUMDB=off go test -vet=off -count=1 -timeout 25m ./...",
        "source_commits": [],
        "add_only": True,
    },
    "engines": [{"name": "symgo", "path": "/verif/engine", "serves_properties": [c["property_id"] for c in checks],
                 "kind_free_text": "symbolic executor for Go SSA (fork of x/tools go/ssa/interp) + z3/cvc5 over SMT-LIB2; decision-vector DFS; controlled goroutine scheduler with sleep sets; vector-clock race detector"}],
    "checks": checks,
    "not_applicable": na,
    "notes": "see DESIGN.md. fix: commits in /repo recorded in known-findings: " + ", ".join(fixes),
}
json.dump(m, open(f"{V}/MANIFEST.json", "w"), indent=1)
print("claimed:", [c["property_id"] for c in checks])
print("not applicable:", [n["property_id"] for n in na])
