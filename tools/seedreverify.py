#!/usr/bin/env python3
"""Re-verify every stored seeded change against the current /repo HEAD (scratch worktrees):
demo passes clean, patch applies and builds, demo fails with the patch, suite passes with it.
Updates meta.json (confirmed_by_lead) and, if the patch needed fuzz, stores the rebased diff."""
import glob, json, os, subprocess, sys
ids=sys.argv[1:] or sorted(os.path.basename(d) for d in glob.glob('/verif/seeded/*') if os.path.isdir(d))
head=subprocess.run("git -C /repo rev-parse --short HEAD",shell=True,capture_output=True,text=True).stdout.strip()
for sid in ids:
    d=f"/verif/seeded/{sid}"; m=json.load(open(d+"/meta.json"))
    dest=m["demo"]["file_goes_to"]; cmd=m["demo"]["command"]
    # command: go test -vet=off -count=1 -run 'RX' PKG
    rx=cmd.split("-run '")[1].split("'")[0]; pkg=cmd.rsplit(" ",1)[1]
    dests=dest.split(","); demos=[]
    tests=sorted(glob.glob(d+"/*_test.go"))
    if len(dests)==1:
        # single demo file: pick the stored test file with the same basename, else the only one
        bn=os.path.basename(dests[0]); c=[t for t in tests if os.path.basename(t)==bn] or [t for t in tests if os.path.basename(t).endswith(bn)] or tests[:1]
        demos=[os.path.basename(c[0])]
    else:
        demos=[os.path.basename(x) for x in dests]
    extra="-race" if sid=="C17-m2" else ""
    env=dict(os.environ, EXTRA=extra)
    r=subprocess.run(["/verif/tools/seedverify.sh",d,",".join(demos),",".join(dests),pkg,rx],capture_output=True,text=True,env=env)
    line=r.stdout.strip().splitlines()[-1] if r.stdout.strip() else r.stderr[-300:]
    print(line,flush=True)
    ok=all(x in line for x in ["demo_clean=PASS","apply=ok","build=ok","demo_patched=FAIL","suite_patched=PASS"])
    m["confirmed_by_lead"]={"script":"/verif/tools/seedreverify.py -> seedverify.sh (scratch worktree of /repo HEAD)","repo_head":head,
        "demo_on_clean_tree":"PASS" if "demo_clean=PASS" in line else "FAIL","patch_applies_and_builds":("apply=ok" in line and "build=ok" in line),
        "demo_with_patch":"FAIL" if "demo_patched=FAIL" in line else "PASS","existing_test_suite_with_patch":"PASS" if "suite_patched=PASS" in line else "FAIL","all_confirmed":ok}
    name=d.replace('/','_').replace('.','_')
    rb=f"/tmp/sv/{name}.rebased.diff"
    if ok and os.path.exists(rb) and os.path.getsize(rb)>0:
        open(d+"/patch.diff","w").write(open(rb).read())
    json.dump(m,open(d+"/meta.json","w"),indent=1)
