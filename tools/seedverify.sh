#!/bin/bash
# seedverify.sh <seed-out-dir> <demo-file> <dest-rel-path> <pkg> <run-regex> : confirm a seeded change
# (a) demo passes on the clean tree, (b) patch applies and builds, (c) demo fails with the patch,
# (d) the existing test suite passes with the patch. Uses a scratch worktree of /repo HEAD.
export GOFLAGS=-mod=mod GOPROXY=off GOSUMDB=off GOTOOLCHAIN=local
src=$1; demo=$2; dest=$3; pkg=$4; rx=$5
name=$(echo $src | tr '/.' '__')
wt=/tmp/sv/wt_$name
git -C /repo worktree remove --force $wt 2>/dev/null; rm -rf $wt
git -C /repo worktree add -q --detach $wt HEAD || exit 3
cd $wt
IFS=, read -ra DS <<< "$demo"; IFS=, read -ra DD <<< "$dest"
for i in "${!DS[@]}"; do cp $src/${DS[$i]} ${DD[$i]}; done
res=""
if timeout 900 go test -vet=off -count=1 $EXTRA -run "$rx" $pkg > /tmp/sv/$name.clean.log 2>&1; then res="$res demo_clean=PASS"; else res="$res demo_clean=FAIL"; fi
if git apply $src/patch.diff 2>/dev/null || patch -p1 -F3 -s < $src/patch.diff; then res="$res apply=ok"; else res="$res apply=FAILED"; fi
git diff -- . ':!*_test.go' > /tmp/sv/$name.rebased.diff
if go build ./... > /tmp/sv/$name.build.log 2>&1; then res="$res build=ok"; else res="$res build=FAIL"; fi
if timeout 900 go test -vet=off -count=1 $EXTRA -run "$rx" $pkg > /tmp/sv/$name.patched.log 2>&1; then res="$res demo_patched=PASS"; else res="$res demo_patched=FAIL"; fi
for i in "${!DD[@]}"; do rm -f ${DD[$i]}; done
if timeout 1500 go test -vet=off -count=1 ./... > /tmp/sv/$name.suite.log 2>&1; then res="$res suite_patched=PASS"; else res="$res suite_patched=FAIL"; fi
cd /; git -C /repo worktree remove --force $wt
echo "$src :$res"
