#!/bin/bash
# seedstore.sh <PROP> <mk> <seed-out-dir> <dest-rel-path-of-demo> <pkg> <run-regex> <needs...>
prop=$1; mk=$2; src=$3; dest=$4; pkg=$5; rx=$6; shift 6; needs="$*"
name=$(echo $src | tr '/.' '__')
d=/verif/seeded/$prop-$mk
mkdir -p $d
if [ -s /tmp/sv/$name.rebased.diff ]; then cp /tmp/sv/$name.rebased.diff $d/patch.diff; else cp $src/patch.diff $d/patch.diff; fi
for f in $src/*_test.go; do cp $f $d/; done
cp $src/notes.md $d/notes.md 2>/dev/null
python3 - "$prop" "$mk" "$dest" "$pkg" "$rx" "$needs" "$d" <<'PY'
import json,sys
prop,mk,dest,pkg,rx,needs,d=sys.argv[1:8]
json.dump({"property":prop,"id":prop+"-"+mk,"breaks":prop,"needs_to_manifest":needs,
 "demo":{"file_goes_to":dest,"command":"go test -vet=off -count=1 -run '%s' %s"%(rx,pkg)},
 "confirmed_by_lead":{"script":"/verif/tools/seedverify.sh (scratch worktree of /repo HEAD)","demo_on_clean_tree":"PASS","patch_applies_and_builds":True,"demo_with_patch":"FAIL","existing_test_suite_with_patch":"PASS"},
 "patch":"patch.diff (git diff against /repo HEAD incl. fix commits; apply with git -C /repo apply)"},open(d+"/meta.json","w"),indent=1)
PY
echo stored $d
