#!/bin/bash
# Build the symgo engine and driver offline from the files in /verif/engine.
set -e
cd "$(dirname "$0")/engine"
export GOFLAGS=-mod=mod GOPROXY=off GOSUMDB=off GOTOOLCHAIN=local
mkdir -p ../bin ../evidence ../replays
go build -o ../bin/vcheck ./cmd/vcheck
echo "vcheck built"
