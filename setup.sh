#!/bin/bash
# Build the symgo engine and driver offline from the files in /verif/engine.
set -e
cd "$(dirname "$0")/engine"
export GOFLAGS=-mod=mod GOPROXY=off GOSUMDB=off GOTOOLCHAIN=local
mkdir -p ../bin ../evidence ../replays
go build -o ../bin/vcheck ./cmd/vcheck
echo "vcheck built"
# Warm the Go build cache with the dependencies of the tree under test, so that the first
# obligation of a cold environment does not spend its time budget compiling them. Works on a
# scratch copy of go.mod/go.sum (never touches the tree); failures here are not fatal.
repo="${VERIF_REPO:-/repo}"
if [ -f "$repo/go.mod" ]; then
  td=$(mktemp -d)
  cp "$repo/go.mod" "$td/go.mod"; cp "$repo/go.sum" "$td/go.sum" 2>/dev/null || true
  (cd "$repo" && go build -modfile="$td/go.mod" ./... >/dev/null 2>&1 && go vet -modfile="$td/go.mod" -tags verif ./... >/dev/null 2>&1) || true
  rm -rf "$td"
fi
